/-
  C09 — Memory safety for valid histories: the explicit bounds of the model.
  Lean has no memory to corrupt.  The model makes every data-dependent index of the C code explicit (a checked
  access whose failure is the model fault `oob`); the theorems say that at the sites guarded by an invariant of
  well-formed volumes the check cannot fire.  Partial by nature: which C accesses need a check is the model's
  reading of the code; the runtime side is observed by ASan / UBSan / valgrind on the explored histories.
-/
import AdfProofs.BitmapLemmas
import AdfProofs.CacheLemmas
import AdfProofs.ProgLemmas
import AdfProps.C04
import AdfProps.C07
import AdfProps.C14
namespace Adf.C09
open Adf

/-- in-memory bitmap of a mounted volume of `nblocks` blocks: allocated with one page per 4064 mapped blocks -/
def BitmapSized (vm : VolMem) (nblocks : Nat) : Prop :=
  vm.hasBitmap = true ∧ vm.bitmapTable.length = nBlock2bitmapSize (nblocks - 2)

/-- the unchecked table index of adfIsBlockFree / adfSetBlockUsed / adfSetBlockFree is in range for every block
    number inside the volume: the model's `oob` check at those sites cannot fire for 2 ≤ n < nblocks -/
theorem C09_bitmap_index_in_table (vm : VolMem) (nblocks n : Nat) (h : BitmapSized vm nblocks)
    (hn : 2 ≤ n) (hlt : n < nblocks) : bmInTable vm n = true := by
  unfold bmInTable
  have := (C14.C14_block_index_in_table nblocks n hn hlt).1
  simp [h.1, hn, h.2, this]

/-- `adfBitmapAllocate` establishes that shape (for the size adfMount / adfCreateBitmap compute) -/
theorem C09_bitmapAllocate_sized (c : Cfg) (v nblocks : Nat) (s : St) :
    BitmapSized ((run c (bitmapAllocate v (nBlock2bitmapSize (nblocks - 2))) s).2.mem.vol v) nblocks := by
  unfold bitmapAllocate modVolMem
  simp only [run_bind', run_getVolMem, run_setVolMem, BitmapSized]
  simp only [Mem.vol, Mem.setVol]
  have hlen : v < (s.mem.vols ++ List.replicate (v + 1 - s.mem.vols.length) default).length := by
    simp; omega
  simp [List.getD_eq_getElem?_getD, List.getElem?_set_self hlen]

/-- setting / clearing bits never changes the shape of the table -/
theorem C09_bmSetWord_keeps_shape (tbl : List Blk) (n : Nat) (f : Bool) :
    (bmSetWord tbl n f).length = tbl.length := bmSetWord_length tbl n f

/-- the allocator only ever returns blocks inside the table (so marking them used is in bounds) -/
theorem C09_alloc_in_volume (tbl : List Blk) (root last nb : Nat) (hroot : 2 < root) (hr : root ≤ last) :
    ∀ b ∈ scanFree tbl root last (last + 2) root nb, 2 ≤ b ∧ b < last + 1 := by
  intro b hb
  have := (C04.C04_alloc_contract tbl root last (last + 2) nb hroot hr (by omega)).1 b hb
  omega

/-- the directory-cache writer stays inside the 488-byte record area: when the caller's test
    `offset + entryLen <= 488` holds (adfAddInCache), storing the record does not grow the area -/
theorem C09_put_stays_in_area (ra : Bytes) (ptr : Nat) (e : CacheEntry) (hra : ra.length = 488) (h : C07.RecOK e)
    (hfit : ptr + cacheEntryLen e ≤ 488) : (putCacheEntry ra ptr e).length = 488 := by
  have hY := C07.tailBytes_length e h
  have hlen := C07.C07_len_even e
  have h1 : (putAt ra ptr (be32 e.header ++ be32 e.size ++ be32 e.protect)).length = 488 := by
    rw [putAt_length _ _ _ (by simp [be32]; omega)]; exact hra
  have h2 : (putAt (putAt ra ptr (be32 e.header ++ be32 e.size ++ be32 e.protect)) (ptr + 16) (C07.tailBytes e)).length = 488 := by
    rw [putAt_length _ _ _ (by rw [hY, h1]; omega)]; exact h1
  show (if (25 + e.nLen + e.cLen) % 2 = 0 then _ else _ : Bytes).length = 488
  split
  · exact h2
  · rename_i hodd
    have : cacheEntryLen e = 25 + e.nLen + e.cLen + 1 := by unfold cacheEntryLen; simp only; rw [if_neg hodd]
    have h3 := putAt_length (putAt (putAt ra ptr (be32 e.header ++ be32 e.size ++ be32 e.protect)) (ptr + 16) (C07.tailBytes e))
      (ptr + (25 + e.nLen + e.cLen)) [0] (by rw [h2]; simp; omega)
    rw [h2] at h3; exact h3

/-- hash slots index the 72-entry table -/
theorem C09_hash_slot_in_table (intl : Bool) (name : Bytes) : hashName intl name < 72 := by
  unfold hashName HT_SIZE; exact Nat.mod_lt _ (by decide)

/-- slots of the block lists: `dataBlocks[MAX_DATABLK-1-i]` for i < 72 is inside the 72-entry array -/
theorem C09_datablock_slot (i : Nat) (h : i < 72) : F_table ≤ F_table + 71 - i ∧ F_table + 71 - i < F_table + 72 := by
  unfold F_table; omega

end Adf.C09
