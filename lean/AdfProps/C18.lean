import AdfModel.Api
namespace Adf.C18
theorem C18_placeholder : True := trivial
end Adf.C18
