/-
  C18 — Bystander integrity at every interruption point.
  Second sentence of the property ("within a bitmap update the on-disk bitmap-valid flag is cleared before the first
  bitmap page is rewritten and set again only after the last"): proved here for the model of `adfUpdateBitmap`, for
  every volume state, every bitmap table (any number of pages, any dirty set, any page pointers), every clock and
  every fault schedule — hence for every prefix of its write sequence, i.e. every interruption point.
  First sentence (each write lands on a free block, the object's own blocks, its directories' metadata or a sibling's
  chain link): proved here for `adfRemoveEntry` (volumes without directory cache) in its sharpest form — the only
  block written besides the bitmap is the directory or the chain predecessor, with exactly one word replaced — for
  every disk content and fault schedule; for `adfSetEntryAccess` / `adfSetEntryComment` (at most one block); and for
  creation — `adfCreateEntry`, `adfCreateFile`, `adfCreateDir` (volumes without directory cache): one link write (the
  directory block where its self pointer says, or the chain's last entry — a block of the disk — with only its link word
  replaced), then one write to a block the bitmap had free when the call began, then a bitmap update; nothing else;
  for `adfRenameEntry` (rename and move: chain predecessor, source directory, the entry, destination chain tail,
  destination directory — in this order, each at most once); for `adfFileFlush` and `adfFileCreateNextBlock` (the
  handle's own extension block, data buffer and header, then the bitmap).
  For the other operations it is decided on the real code by classifying every
  device write of every operation against the independent decoder's ownership map (tools/props/C18.py), the model being
  tied to those writes trace-exactly.  (MANIFEST: partial.)
-/
import AdfProofs.BitmapOrder
import AdfProofs.WriteSetLemmas
import AdfProofs.CreateWriteSet
import AdfProofs.FlushWriteSet
import AdfProofs.NextBlockWriteSet
import AdfProofs.RenameWriteSet
import AdfProofs.UndelWriteSet
import AdfProofs.TraceGrows
namespace Adf.C18
open Adf

/-- **write order of a bitmap update.**  `W` are the device writes the call appends, newest first.  Either it wrote
    nothing, or its OLDEST write is the root block with `bmFlag = BM_INVALID`; if that write failed nothing follows;
    otherwise there follow page writes, of which only the newest may have failed, and then at most one more write:
    the root block with `bmFlag = BM_VALID`, which is only issued when every page write succeeded. -/
theorem C18_bitmap_update_order (c : Cfg) (v : Nat) (s : St) :
    Post AnyFault c (updateBitmap v) s (fun _ s' => ∃ W, writesOf s'.trace = W ++ writesOf s.trace ∧ BmOrder c v W) :=
  updateBitmap_order c v s

/-- the update never stops on a model fault: the statement above is about every run -/
theorem C18_bitmap_update_total (c : Cfg) (v : Nat) (s : St) :
    Post (fun _ => False) c (updateBitmap v) s (fun _ s' => ∃ W, writesOf s'.trace = W ++ writesOf s.trace ∧ BmOrder c v W) :=
  updateBitmap_order c v s

/-- the flag values are in the BYTES that reach the device (offset 4·78 of the sector image), not only in the struct -/
theorem C18_flag_in_written_bytes {c : Cfg} {v flag : Nat} {e : Ev} (h : IsRootWr c v flag e) :
    ∃ sec data st, e = Ev.wr (some v) sec 512 data st ∧ sec = vsect c v (c.vol v).rootBlock ∧ flagOfSector data = flag :=
  h.flag_in_bytes

/-- consequences spelled out (W newest first): the oldest write clears the flag, and if it failed it is the only one;
    every write strictly between the oldest and the newest is a successful page write; the newest write (when there
    are at least two) is either a page write, or the root write setting the flag — and then every earlier write
    succeeded -/
theorem C18_pages_between (c : Cfg) (v : Nat) (W : List Ev) (h : BmOrder c v W) (hne : W ≠ []) :
    (∃ e0, W.getLast? = some e0 ∧ IsRootWr c v BM_INVALID e0 ∧ (e0.status ≠ 0 → W = [e0])) ∧
    (∀ e ∈ (W.drop 1).dropLast, IsPageWr v e ∧ e.status = 0) ∧
    (∀ e1, W.head? = some e1 → W.length ≥ 2 → IsPageWr v e1 ∨ (IsRootWr c v BM_VALID e1 ∧ ∀ e ∈ W.drop 1, e.status = 0)) := by
  rcases h with h | ⟨e0, rest, hW, h0, hfail, pages, tail, hrest, hp, htl, hcase⟩
  · exact absurd h hne
  · refine ⟨⟨e0, by rw [hW]; simp, h0, fun hs => by rw [hW, hfail hs]; rfl⟩, ?_, ?_⟩
    rotate_left
    · intro e1 hhead hlen
      rcases hcase with ht | ⟨e1', ht, hv, hall⟩
      · subst ht
        simp only [List.nil_append] at hrest
        subst hrest
        cases rest with
        | nil => rw [hW] at hlen; simp at hlen
        | cons a t =>
          rw [hW] at hhead; simp at hhead; subst hhead
          exact Or.inl (hp _ (by simp))
      · subst ht
        rw [hW, hrest] at hhead; simp at hhead; subst hhead
        refine Or.inr ⟨hv, ?_⟩
        intro e he
        rw [hW, hrest] at he
        simp at he
        rcases he with he | he
        · exact hall e he
        · subst he
          by_cases h0s : e.status = 0
          · exact h0s
          · have := hfail h0s; rw [hrest] at this; simp at this
    intro e he
    rcases hcase with ht | ⟨e1', ht, _, hall⟩
    · -- no closing write was issued: then the newest write is a page (or W = [e0]); the hypothesis on the head
      -- is only used to bound the range — every element strictly between is a successful page write anyway
      subst ht
      simp only [List.nil_append] at hrest
      subst hrest
      rw [hW] at he
      have : (List.drop 1 (rest ++ [e0])).dropLast = rest.drop 1 := by
        cases rest with
        | nil => simp
        | cons a t => simp [List.dropLast_concat]
      rw [this] at he
      have hmem : e ∈ rest := List.mem_of_mem_drop he
      have : e ∈ rest.tail := by rw [← List.drop_one]; exact he
      exact ⟨hp e hmem, htl e this⟩
    · subst ht
      rw [hW, hrest] at he
      have : (List.drop 1 (([e1'] ++ pages) ++ [e0])).dropLast = pages := by
        simp [List.dropLast_concat]
      rw [this] at he
      exact ⟨hp e he, hall e he⟩

/-- non-vacuity: a sequence of the full shape (clear, one page, set) satisfies `BmOrder` -/
example (c : Cfg) (v : Nat) (r : Blk) (hr : BlkWF r) (pg : Blk) :
    BmOrder c v
      [Ev.wr (some v) (vsect c v (c.vol v).rootBlock) 512 (rootImage (r.setW F_bmFlag BM_VALID)) 0,
       Ev.wr (some v) 881 512 (bytesOfBlk (withSum pg 0)) 0,
       Ev.wr (some v) (vsect c v (c.vol v).rootBlock) 512 (rootImage (r.setW F_bmFlag BM_INVALID)) 0] := by
  refine Or.inr ⟨_, [_, _], rfl, ⟨_, 0, rfl, setW_wf _ _ _ hr, ?_⟩, fun h => absurd rfl h, [_], [_], rfl, ?_, by simp, Or.inr ⟨_, rfl, ⟨_, 0, rfl, setW_wf _ _ _ hr, ?_⟩, ?_⟩⟩
  · exact Blk.w_setW_same _ _ _ (by rw [hr.1]; decide) (by decide)
  · intro e he; simp at he; subst he; exact ⟨_, _, _, rfl⟩
  · exact Blk.w_setW_same _ _ _ (by rw [hr.1]; decide) (by decide)
  · intro e he; simp at he; subst he; rfl

/-- **first sentence of C18 for delete** (volumes without directory cache): for EVERY disk content, state and fault
    schedule, the device writes of `adfRemoveEntry` are: none; or exactly one block — the directory or the entry's chain
    predecessor — rewritten as it is on the disk with ONE word replaced (its hash slot / its chain link) and the checksum
    recomputed, followed, if that write succeeded, by a bitmap update in its fixed order.  No header, extension or data
    block of any other file is written at any interruption point. -/
theorem C18_remove_write_set (c : Cfg) (v pSect : Nat) (name : Bytes) (s : St)
    (hnc : isDIRCACHE (c.vol v).dosType = false) :
    Post AnyFault c (removeEntry v pSect name) s (fun _ s' =>
      ∃ W, writesOf s'.trace = W ++ writesOf s.trace ∧ RemoveWrites c s.disk v W) :=
  removeEntry_write_set c v pSect name s hnc

/-- the block-freeing walks of a delete (file header table, extension chain) only read and update library memory -/
theorem C18_free_blocks_writes_nothing (c : Cfg) (v : Nat) (entry : Blk) (s : St) :
    Post AnyFault c (freeFileBlocks v entry) s (fun _ s' => s'.disk = s.disk ∧ writesOf s'.trace = writesOf s.trace) := by
  refine Post.mono _ _ _ _ _ (freeFileBlocks_quiet c v entry s s (Quiet.rfl' s)) ?_
  intro _ s' hq; exact ⟨hq.1, hq.2.2⟩

/-- `adfSetEntryAccess` and `adfSetEntryComment` (volumes without directory cache) write at most ONE block, for every
    disk content and fault schedule: no bitmap, no directory, no other entry -/
theorem C18_access_write_set (c : Cfg) (v parSect : Nat) (name : Bytes) (acc : Nat) (s : St)
    (hnc : isDIRCACHE (c.vol v).dosType = false) :
    Post AnyFault c (setEntryAccess v parSect name acc) s (fun _ s' =>
      ∃ W, writesOf s'.trace = W ++ writesOf s.trace ∧ OneWriteTo c v W) :=
  setEntryAccess_write_set c v parSect name acc s hnc

theorem C18_comment_write_set (c : Cfg) (v parSect : Nat) (name cmt : Bytes) (s : St)
    (hnc : isDIRCACHE (c.vol v).dosType = false) :
    Post AnyFault c (setEntryComment v parSect name cmt) s (fun _ s' =>
      ∃ W, writesOf s'.trace = W ++ writesOf s.trace ∧ OneWriteTo c v W) :=
  setEntryComment_write_set c v parSect name cmt s hnc

/-- **write set of `adfCreateEntry`** (every directory block, name, chain content, volume state, fault schedule): nothing,
    or exactly one block — the directory itself or the chain's last entry with only its link word replaced; the entry
    exists iff that write succeeded; the block handed out was free -/
theorem C18_create_entry_write_set (c : Cfg) (v : Nat) (dir : Blk) (name : Bytes) (s : St) :
    Post AnyFault c (createEntry v dir name) s (fun r s' => ∃ W, writesOf s'.trace = W ++ writesOf s.trace ∧
      CreateEntryW c s.disk v dir (s.mem.vol v).bitmapTable r.1 W ∧ s'.clock = s.clock) :=
  createEntry_write_set c v dir name s

/-- **write set of `adfCreateFile`** (volumes without directory cache): the link write, then the new header on a block that
    was free, then a bitmap update in its fixed order — at every interruption point no block of another file is touched -/
theorem C18_create_file_write_set (c : Cfg) (v nParent : Nat) (name : Bytes) (s : St)
    (hnc : isDIRCACHE (c.vol v).dosType = false) :
    Post AnyFault c (createFile v nParent name) s (fun _ s' => ∃ W, writesOf s'.trace = W ++ writesOf s.trace ∧
      CreateWrites c s.disk v (blkOfBytes ((s.sector (vsect c v nParent)).take 512)) (s.mem.vol v).bitmapTable W) :=
  createFile_write_set c v nParent name s hnc

/-- **write set of `adfCreateDir`** (volumes without directory cache): the same shape -/
theorem C18_create_dir_write_set (c : Cfg) (v nParent : Nat) (name : Bytes) (s : St)
    (hnc : isDIRCACHE (c.vol v).dosType = false) :
    Post AnyFault c (createDir v nParent name) s (fun _ s' => ∃ W, writesOf s'.trace = W ++ writesOf s.trace ∧
      CreateWrites c s.disk v (blkOfBytes ((s.sector (vsect c v nParent)).take 512)) (s.mem.vol v).bitmapTable W) :=
  createDir_write_set c v nParent name s hnc

/-- **the access log is append-only, for every program of the model**: whatever a call does and wherever it is interrupted,
    the log after it is the log before it with new events in front — what the write-set theorems say about "the writes of
    this call" can therefore never be undone by a later step of the same call -/
theorem C18_access_log_only_grows (c : Cfg) {α : Type} (p : Prog α) (s : St) :
    ∃ T, (run c p s).2.trace = T ++ s.trace :=
  run_trace_grows c p s

/-- **write set of `adfUndelDir`** (volumes without directory cache; every disk content, entry block, volume state and fault
    schedule), newest first: the entry's own block at most once, at the sector its self pointer names; then at most one
    link write — the parent directory where its self pointer says, or the tail of the hash chain as the disk then holds it
    with only its link word replaced by the entry's block number; then, only after a successful link write, a bitmap
    update in its fixed order.  No block of any other file or directory is written, wherever the call is interrupted. -/
theorem C18_undelete_dir_write_set (c : Cfg) (v pSect : Nat) (entry : Blk) (s : St)
    (hnc : isDIRCACHE (c.vol v).dosType = false) :
    Post AnyFault c (undelDir v pSect entry) s (fun _ s' => ∃ W, writesOf s'.trace = W ++ writesOf s.trace ∧
      UndelW c s.disk v (blkOfBytes ((s.sector (vsect c v pSect)).take 512)) (entry.w F_headerKey) W) :=
  undelDir_write_set c v pSect entry s hnc

/-- **write set of `adfUndelFile`** (from the point where it has the file's block lists): the same shape — marking the
    file's blocks used writes nothing to the device -/
theorem C18_undelete_file_write_set (c : Cfg) (v pSect : Nat) (entry : Blk) (data exts : List Nat) (s : St)
    (hnc : isDIRCACHE (c.vol v).dosType = false) :
    Post AnyFault c (undelFileRest v pSect entry data exts) s (fun _ s' => ∃ W, writesOf s'.trace = W ++ writesOf s.trace ∧
      UndelW c s.disk v (blkOfBytes ((s.sector (vsect c v pSect)).take 512)) (entry.w F_headerKey) W) :=
  undelFileRest_write_set c v pSect entry data exts s hnc

/-- the link step of undelete on its own: nothing, or exactly one block, `some` iff that write succeeded -/
theorem C18_create_entry_at_write_set (c : Cfg) (v : Nat) (dir : Blk) (name : Bytes) (t : Nat) (s : St) :
    Post AnyFault c (createEntryAt v dir name t) s (fun r s' => ∃ W, writesOf s'.trace = W ++ writesOf s.trace ∧
      CreateAtW c s.disk v dir t r.1 W) :=
  createEntryAt_write_set c v dir name t s

/-- **write set of `adfFileFlush`** (volumes without directory cache; every handle state, disk content, fault schedule): at
    most the handle's current extension block (where it says it lives), its data buffer (to the block the handle
    designates), its header (to its own sector), then a bitmap update — nothing else, so closing or flushing a file cannot
    touch a block of another file -/
theorem C18_flush_write_set (c : Cfg) (h : FileH) (s : St) (hwf : BlkWF h.hdr)
    (hnc : isDIRCACHE (c.vol h.vol).dosType = false) :
    Post AnyFault c (fileFlush h) s (fun _ s' => ∃ W, writesOf s'.trace = W ++ writesOf s.trace ∧ FlushWrites c h W) :=
  fileFlush_write_set c h s hwf hnc

/-- **write set of `adfFileCreateNextBlock`** (the step of `adfFileWrite` that moves to a new data block; every handle
    state, disk content, volume state, fault schedule, all flavours): at most one extension block rewritten where it says it
    lives and at most one write of the finished data buffer to the block the handle designated — no header, no bitmap, no
    block of another file; on FFS volumes the data written is the handle's buffer as it is -/
theorem C18_next_block_write_set (c : Cfg) (h : FileH) (s : St) :
    Post AnyFault c (fileCreateNextBlock h) s (fun _ s' => ∃ Wdat Wext, writesOf s'.trace = Wdat ++ Wext ++ writesOf s.trace ∧
      ExtWr c h.vol Wext ∧ DataWr c h Wdat) :=
  fileCreateNextBlock_write_set c h s

/-- **write set of `adfRenameEntry`** (rename and move, volumes without directory cache; every disk content, volume state
    and fault schedule): nothing, or — with `nSect` the block the library's own lookup finds for the old name and `prevSect`
    its chain predecessor — in this order, each at most once: the predecessor (only its link word replaced), the source
    directory block, the entry's own block, the last entry of the destination chain (written where it says it lives, only
    its link replaced), the destination directory block.  No other block is written, wherever the call is interrupted. -/
theorem C18_rename_write_set (c : Cfg) (v pSect nPSect : Nat) (oldName newName : Bytes) (s : St)
    (hnc : isDIRCACHE (c.vol v).dosType = false) :
    Post AnyFault c (renameEntry v pSect oldName nPSect newName) s (fun _ s' =>
      ∃ W, writesOf s'.trace = W ++ writesOf s.trace ∧ RenameWrites c v pSect nPSect oldName s W) :=
  renameEntry_write_set c v pSect nPSect oldName newName s hnc

end Adf.C18
