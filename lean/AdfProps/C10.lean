import AdfModel.Api
namespace Adf.C10
theorem C10_placeholder : True := trivial
end Adf.C10
