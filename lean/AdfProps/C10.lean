/-
  C10 — Hostile images: the guards of the read path, for EVERY byte string.
  No well-formedness hypothesis anywhere in this file: the device content is arbitrary.
  Theorems: a block image decoded from any 512 bytes has exactly 128 words below 2^32 (every word/byte accessor is
  in range); names and comments handed to the caller are clamped to 30 / 79 bytes; a parsed cache record lies
  inside the 488-byte record area (C07); hash slots are < 72; the bitmap loader never indexes past the table it
  allocated, whatever page pointers the root block and the extension blocks contain; block numbers taken from
  the image reach the device only through the range-checked primitive (C13).
  Partial by nature (MANIFEST): real memory behaviour is observed by ASan/UBSan on mutated images.
-/
import AdfProofs.ProgLemmas
import AdfProps.C07
import AdfModel.File
import AdfProofs.BitmapLoad
import AdfProofs.ExtCursor
namespace Adf.C10
open Adf

theorem wordsOf_length : ∀ (n : Nat) (b : Bytes), b.length = 4 * n → (wordsOf b).length = n := by
  intro n
  induction n with
  | zero => intro b h; have : b = [] := List.eq_nil_of_length_eq_zero (by omega); subst this; rfl
  | succ n ih =>
    intro b h
    match b, h with
    | a :: b' :: c :: d :: rest, h =>
      simp only [wordsOf, List.length_cons]
      rw [ih rest (by simp at h; omega)]

theorem padTo_length (b : Bytes) (n : Nat) : (padTo b n).length = n := by
  unfold padTo; simp [List.length_take]

/-- any byte string decodes to a full block image: 128 words, each below 2^32 -/
theorem C10_block_image_total (b : Bytes) :
    (blkOfBytes b).length = 128 ∧ ∀ w ∈ blkOfBytes b, w < 4294967296 := by
  unfold blkOfBytes
  have hw : W32 = 4294967296 := rfl
  exact ⟨wordsOf_length 128 _ (by rw [padTo_length]), wordsOf_lt _⟩

theorem cstr_length_le (b : Bytes) : (cstr b).length ≤ b.length := by
  unfold cstr
  induction b with
  | nil => simp
  | cons a t ih =>
    simp only [List.takeWhile_cons]
    split
    · simp only [List.length_cons]; omega
    · simp

theorem Blk_bytes_length (b : Blk) (off len : Nat) : (b.bytes off len).length = len := by
  unfold Blk.bytes; simp

/-- whatever a header block contains, the name reported to the caller has at most 30 bytes and the comment at
    most 79 (the C code copies them into 80-byte buffers) -/
theorem C10_entry_strings_clamped (b : Blk) :
    (entBlock2Entry b).name.length ≤ 30 ∧ ∀ c, (entBlock2Entry b).comment = some c → c.length ≤ 79 := by
  unfold entBlock2Entry
  simp only
  refine ⟨?_, ?_⟩
  · split <;> (try split) <;> (try split) <;>
      (simp only []; exact Nat.le_trans (cstr_length_le _) (by rw [Blk_bytes_length]; exact Nat.min_le_right _ _))
  · intro c hc
    split at hc <;> (try split at hc) <;> (try split at hc) <;>
      first
      | (simp only [Option.some.injEq] at hc; subst hc
         exact Nat.le_trans (cstr_length_le _) (by rw [Blk_bytes_length]; exact Nat.min_le_right _ _))
      | (simp at hc)

/-- a cache record parsed from ANY bytes is inside the record area, with a 1..30-byte name and a 0..79-byte comment
    (the C parser copies them into name[31] / comm[80] and NUL-terminates at nLen / cLen) -/
theorem C10_cache_record_guarded (ra : Bytes) (ptr : Nat) (e : CacheEntry) (p : Nat)
    (h : getCacheEntry ra ptr = some (e, p)) :
    e.nLen ≤ 30 ∧ e.cLen ≤ 79 ∧ ptr + 24 + e.nLen + 1 + e.cLen ≤ 488 ∧ e.name.length ≤ 30 ∧ e.comm.length ≤ 79 := by
  have := C07.C07_record_in_bounds ra ptr e p h
  unfold REC_AREA at this
  omega

/-- the hash slot of any name indexes the 72-entry table -/
theorem C10_hash_slot (intl : Bool) (name : Bytes) : hashName intl name < 72 := by
  unfold hashName HT_SIZE; exact Nat.mod_lt _ (by decide)

/-- block numbers below 2 (boot blocks) or negative are refused before any data block is read -/
theorem C10_data_pointer_guard (n : Nat) (h : sectLt2 n = false) : 2 ≤ n ∧ n < 2147483648 := by
  unfold sectLt2 at h; simp at h; omega

/-- **the bitmap loader never indexes past the table it allocated**: for any root block, any volume size, any
    device content (page pointers, extension chains, cycles) and any I/O fault schedule, `adfReadBitmap` returns
    normally or stops on the model's step bound — never on an out-of-bounds table access (the heap overflow the
    original code had for images with more pages than the volume size implies). -/
theorem C10_readBitmap_never_oob (c : Cfg) (v nBlock : Nat) (root : Blk) (s : St) :
    match run c (readBitmap v nBlock root) s with
    | (.ok _, _) => True
    | (.fault f, _) => f.isOob = false := by
  have h := readBitmap_never_oob c v nBlock root s
  unfold Post NoOob at h
  rcases hr : run c (readBitmap v nBlock root) s with ⟨r, s'⟩
  rw [hr] at h
  cases r with
  | ok a => trivial
  | fault f => exact h

/-- **the file read path never dereferences a missing extension buffer nor indexes outside it**, whatever the image
    contains (block counts, extension chains, pointers) and whichever accesses fail: on a read-mode handle that holds no
    block or whose extension cursor is usable (true of every fresh handle: its block index is 0), `adfFileRead` —
    including every seek it performs — ends normally or on the model's step bound, never on an out-of-bounds access, and
    leaves the handle in such a state again.  (In C the sites are `file->currentExt->…` with a NULL pointer and
    `dataBlocks[71 - posInExtBlk]`.) -/
theorem C10_fileRead_never_oob (c : Cfg) (h : FileH) (n : Nat) (s : St) (hro : h.modeWrite = false) (hx : ExtW c h) :
    Post NoOob c (fileRead h n) s (fun r _ => ExtW c r.2 ∧ r.2.vol = h.vol ∧ r.2.modeWrite = h.modeWrite) :=
  fileRead_never_oob c h n s hro hx

/-- the same for an explicit seek; on success the cursor is usable -/
theorem C10_seek_never_oob (c : Cfg) (h : FileH) (pos : Nat) (s : St) (hro : h.modeWrite = false) (hx : ExtW c h) :
    Post NoOob c (seek h pos) s (fun r _ =>
      ExtW c r.2 ∧ (r.1 = rcOK → ExtOK c r.2) ∧ r.2.vol = h.vol ∧ r.2.modeWrite = h.modeWrite) :=
  (seek_family_extOK c SEEK_FUEL).1 h pos s hro hx

/-- a handle that has not read any block yet has a usable cursor: the premise above is reachable -/
example (c : Cfg) (h : FileH) (h0 : h.nDataBlock = 0) : ExtW c h := by
  right; intro _ hgt; rw [h0] at hgt; cases hgt

end Adf.C10
