/-
  C04 — Allocation soundness: the bitmap kernel and the allocator contract.
  Model: AdfModel/Bitmap.lean — `bmIsFree` / `bmSetWord` (adfIsBlockFree / adfSetBlockFree / adfSetBlockUsed:
  page = (n-2)/4064, word = 1 + ((n-2)/32)%127, bit = (n-2)%32, bit set = free) and `scanFree` (the circular scan
  of adfGetFreeBlocks from the root block, wrapping lastBlock → 2, stopping back at the root).
  `getFreeBlocks v nb` in the model is `scanFree table root last (last+2) root nb`, accepted only when it found
  all `nb` blocks, followed by `setBlockUsed` on each.
  NOT proved (MANIFEST): that on every reachable state the reachable blocks are exactly the non-free ones; that is
  checked at every quiescent point of the explored histories by the independent decoder.
-/
import AdfProofs.BitmapLemmas
import AdfProofs.UndelMarks
import AdfProofs.GetDel
namespace Adf.C04
open Adf

/-- marking a block used / free changes the state of that block … -/
theorem C04_set_same (tbl : List Blk) (n : Nat) (f : Bool) (hwf : TableWF tbl)
    (hpg : (n - 2) / BM_PAGE_BLOCKS < tbl.length) : bmIsFree (bmSetWord tbl n f) n = f :=
  bmIsFree_set_same tbl n f hwf hpg

/-- … and of no other block of the volume (no two blocks share a bit) -/
theorem C04_set_other (tbl : List Blk) (n m : Nat) (f : Bool) (hwf : TableWF tbl) (hn : 2 ≤ n) (hm : 2 ≤ m)
    (hne : n ≠ m) (hpg : (n - 2) / BM_PAGE_BLOCKS < tbl.length) :
    bmIsFree (bmSetWord tbl n f) m = bmIsFree tbl m :=
  bmIsFree_set_other tbl n m f hwf hn hm hne hpg

/-- what the allocator's scan returns: free blocks only, inside [2, last] (never a boot block, never outside
    the volume), pairwise distinct, at most the number asked for -/
theorem C04_alloc_contract (tbl : List Blk) (root last fuel nb : Nat) (hroot : 2 < root) (hr : root ≤ last)
    (hf : last ≤ fuel) :
    let l := scanFree tbl root last fuel root nb
    (∀ b ∈ l, bmIsFree tbl b = true ∧ 2 ≤ b ∧ b ≤ last) ∧ l.Nodup ∧ l.length ≤ nb := by
  simp only
  rw [scanFree_eq, scanSeq_full root last fuel hroot hr hf]
  refine ⟨?_, ?_, ?_⟩
  · intro b hb
    have hb' := List.mem_of_mem_take hb
    rw [List.mem_filter] at hb'
    exact ⟨hb'.2, (mem_circ root last b hroot hr).1 hb'.1⟩
  · exact ((circ_nodup root last hroot hr).filter _).sublist (List.take_sublist _ _)
  · exact List.length_take_le _ _

/-- completeness: when the scan comes back with fewer blocks than asked for, it has returned EVERY free block of
    the volume — the allocator reports "full" only when fewer than `nb` blocks are free -/
theorem C04_scan_complete (tbl : List Blk) (root last fuel nb : Nat) (hroot : 2 < root) (hr : root ≤ last)
    (hf : last ≤ fuel) (hshort : (scanFree tbl root last fuel root nb).length < nb) :
    ∀ b, 2 ≤ b → b ≤ last → bmIsFree tbl b = true → b ∈ scanFree tbl root last fuel root nb := by
  rw [scanFree_eq, scanSeq_full root last fuel hroot hr hf] at hshort ⊢
  intro b h2 hl hfree
  have hall : ((circ root last).filter (bmIsFree tbl)).take nb = (circ root last).filter (bmIsFree tbl) := by
    apply List.take_of_length_le
    rw [List.length_take] at hshort
    omega
  rw [hall, List.mem_filter]
  exact ⟨(mem_circ root last b hroot hr).2 ⟨h2, hl⟩, hfree⟩

/-- conversely, when at least `nb` blocks are free the scan finds `nb` of them -/
theorem C04_scan_succeeds (tbl : List Blk) (root last fuel nb : Nat) (hroot : 2 < root) (hr : root ≤ last)
    (hf : last ≤ fuel) (henough : nb ≤ ((circ root last).filter (bmIsFree tbl)).length) :
    (scanFree tbl root last fuel root nb).length = nb := by
  rw [scanFree_eq, scanSeq_full root last fuel hroot hr hf, List.length_take]
  omega

/-- marking the blocks of an allocation used: afterwards none of them is free and every other block of the
    volume is as before -/
def markUsed (tbl : List Blk) (l : List Nat) : List Blk := l.foldl (fun t b => bmSetWord t b false) tbl

theorem C04_markUsed (l : List Nat) : ∀ (tbl : List Blk), TableWF tbl →
    (∀ b ∈ l, 2 ≤ b ∧ (b - 2) / BM_PAGE_BLOCKS < tbl.length) →
    (∀ b ∈ l, bmIsFree (markUsed tbl l) b = false) ∧
    (∀ m, 2 ≤ m → m ∉ l → bmIsFree (markUsed tbl l) m = bmIsFree tbl m) ∧ TableWF (markUsed tbl l) := by
  induction l with
  | nil => intro tbl hwf _; exact ⟨by simp, by simp [markUsed], hwf⟩
  | cons a l ih =>
    intro tbl hwf hin
    have ha := hin a (by simp)
    have hwf' := bmSetWord_wf tbl a false hwf
    have hin' : ∀ b ∈ l, 2 ≤ b ∧ (b - 2) / BM_PAGE_BLOCKS < (bmSetWord tbl a false).length := by
      intro b hb; rw [bmSetWord_length]; exact hin b (by simp [hb])
    obtain ⟨h1, h2, h3⟩ := ih (bmSetWord tbl a false) hwf' hin'
    have hunf : markUsed tbl (a :: l) = markUsed (bmSetWord tbl a false) l := rfl
    rw [hunf]
    refine ⟨?_, ?_, h3⟩
    · intro b hb
      rcases List.mem_cons.mp hb with rfl | hb
      · by_cases hbl : b ∈ l
        · exact h1 b hbl
        · rw [h2 b ha.1 hbl]; exact bmIsFree_set_same tbl b false hwf ha.2
      · exact h1 b hb
    · intro m hm hnot
      have hma : a ≠ m := fun e => hnot (by simp [e])
      have hml : m ∉ l := fun e => hnot (by simp [e])
      rw [h2 m hm hml]
      exact bmIsFree_set_other tbl a m false hwf ha.1 hm hma ha.2

/-- non-vacuity: a 40-block volume (root 20), one page, blocks 2..39 free except 20 and 21: the hypotheses
    of the contract hold and the first three blocks handed out are 22, 23, 24; asking for 37 fails (36 free) -/
def smallTbl : List Blk := [[0, 0xFFF3FFFF, 0x3F] ++ List.replicate 125 0]

example : scanFree smallTbl 20 39 41 20 3 = [22, 23, 24] ∧ (scanFree smallTbl 20 39 41 20 37).length = 36 ∧
          bmIsFree smallTbl 20 = false ∧ bmIsFree smallTbl 39 = true ∧
          bmIsFree (markUsed smallTbl [22, 23, 24]) 23 = false ∧ bmIsFree (markUsed smallTbl [22, 23, 24]) 25 = true := by
  decide

/-! ## Undelete (src/adf_salv.c, model AdfModel/Salv.lean) -/

/-- **writing the bitmap out never changes the free map**: `adfUpdateBitmap`, on any disk content and under any fault
    schedule, leaves the in-memory table the allocator works from exactly as it was -/
theorem C04_update_bitmap_keeps_free_map (c : Cfg) (v : Nat) (s : St) :
    Post AnyFault c (updateBitmap v) s (fun _ s' => (s'.mem.vol v).bitmapTable = (s.mem.vol v).bitmapTable) :=
  updateBitmap_table c v s

/-- **an undeleted file has all its blocks allocated**: for every disk content, entry block, block lists, volume type
    (with or without directory cache) and fault schedule, when `adfUndelFile` — from the point where it has the file's
    block lists — reports success, the header block and every data and extension block are inside the volume (≥ 2) and
    marked used in the free map, so no later allocation can hand one of them out. -/
theorem C04_undeleted_file_is_allocated (c : Cfg) (v pSect : Nat) (entry : Blk) (data exts : List Nat) (s : St)
    (hwf : TableWF (s.mem.vol v).bitmapTable) :
    Post AnyFault c (undelFileRest v pSect entry data exts) s
      (fun rc s' => rc = rcOK → ∀ k, (k = entry.w F_headerKey ∨ k ∈ data ∨ k ∈ exts) →
        2 ≤ k ∧ bmIsFree (s'.mem.vol v).bitmapTable k = false) := by
  refine Post.mono _ _ _ _ _ (undelFileRest_marks c v pSect entry data exts s hwf) ?_
  intro rc s' h hrc k hk
  apply (h hrc).2 k
  simp only [List.mem_append, List.mem_singleton]
  rcases hk with h | h | h
  · exact Or.inr (Or.inr h)
  · exact Or.inr (Or.inl h)
  · exact Or.inl h

/-- **an undeleted directory has its block allocated, and on a DIRCACHE volume its cache block too** -/
theorem C04_undeleted_dir_is_allocated (c : Cfg) (v pSect : Nat) (entry : Blk) (s : St)
    (hwf : TableWF (s.mem.vol v).bitmapTable) :
    Post AnyFault c (undelDir v pSect entry) s
      (fun rc s' => rc = rcOK →
        (2 ≤ entry.w F_headerKey ∧ bmIsFree (s'.mem.vol v).bitmapTable (entry.w F_headerKey) = false) ∧
        (isDIRCACHE (c.vol v).dosType = true →
          2 ≤ entry.w F_extension ∧ bmIsFree (s'.mem.vol v).bitmapTable (entry.w F_extension) = false)) := by
  refine Post.mono _ _ _ _ _ (undelDir_marks c v pSect entry s hwf) ?_
  intro rc s' h hrc
  exact ⟨(h hrc).1.2 _ (by simp), fun hd => ((h hrc).2 hd).2 _ (by simp)⟩

/-- **`adfUndelEntry`: what it restores is allocated afterwards** — for every volume state, disk content, parent and sector
    number and fault schedule: when the call reports success and the block at `nSect` is a file header or a directory,
    the block that block names as its own (`headerKey`, the one that gets linked into the parent) is ≥ 2 and marked used. -/
theorem C04_undelete_entry_is_allocated (c : Cfg) (v pSect nSect : Nat) (s : St) (hwf : TableWF (s.mem.vol v).bitmapTable) :
    Post AnyFault c (undelEntry v pSect nSect) s (fun rc s' => rc = rcOK →
      let e := blkOfBytes ((s.sector (vsect c v nSect)).take 512)
      (e.secType = ST_FILE ∨ e.secType = ST_DIR) →
        2 ≤ e.w F_headerKey ∧ bmIsFree (s'.mem.vol v).bitmapTable (e.w F_headerKey) = false) := by
  refine Post.mono _ _ _ _ _ (undelEntry_marks c v pSect nSect s hwf) ?_
  intro rc s' h hok e he
  exact (h hok he).2 _ List.mem_cons_self

/-- **adding a record to a directory cache never releases a block** (`adfAddInCache` may allocate one) -/
theorem C04_add_in_cache_releases_nothing (c : Cfg) (v : Nat) (parent entry : Blk) (k : Nat) (s : St)
    (hwf : TableWF (s.mem.vol v).bitmapTable) (hk : 2 ≤ k) (hused : bmIsFree (s.mem.vol v).bitmapTable k = false) :
    Post AnyFault c (addInCache v parent entry) s (fun _ s' => bmIsFree (s'.mem.vol v).bitmapTable k = false) := by
  refine Post.mono _ _ _ _ _ (addInCache_usedAll c v parent entry [k] s ⟨hwf, fun j hj => by
    rw [List.mem_singleton.mp hj]; exact ⟨hk, hused⟩⟩) ?_
  intro _ s' h
  exact (h.2 k (by simp)).2

/-- the marking loop of `adfUndelFile` stops at the first block that is not free, having marked none after it (the count it
    reports is short, the call then gives everything back and fails): a block that two deleted files claim is never given
    to both -/
theorem C04_mark_refuses_used_block (c : Cfg) (v b : Nat) (bs : List Nat) (s : St)
    (hin : bmInTable (s.mem.vol v) b = true) (hused : bmIsFree (s.mem.vol v).bitmapTable b = false) :
    run c (markWhileFree v (b :: bs)) s = (.ok 0, s) := by
  unfold markWhileFree isBlockFree
  simp [run_bind', hin, hused]

/-- **`adfGetDelEnt` only looks, and what it lists is free**: for every disk content, volume state and fault schedule,
    listing the deleted entries leaves the disk, the library's memory (hence the free map) and the log of device writes as
    they were; and every entry of the list sits in a block of the volume — number 2 .. lastBlock - firstBlock, relative to
    the volume — that the free map has free: the blocks `adfUndelEntry` will be asked to take back. -/
theorem C04_deleted_entries_are_free_blocks (c : Cfg) (v : Nat) (s : St) :
    Post AnyFault c (getDelEnt v) s (fun r s' => Untouched s s' ∧ ∀ L, r = some L → ∀ e ∈ L,
      2 ≤ e.2.1 ∧ e.2.1 ≤ (c.vol v).lastBlock - (c.vol v).firstBlock ∧ bmIsFree (s.mem.vol v).bitmapTable e.2.1 = true) :=
  getDelEnt_spec c v s

end Adf.C04
