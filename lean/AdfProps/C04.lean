import AdfModel.Api
namespace Adf.C04
theorem C04_placeholder : True := trivial
end Adf.C04
