/-
  C20 — unadf never writes outside its extraction directory (string side).
  Model: AdfModel/Unadf.lean (`output_name` of examples/unadf.c, POSIX build).
  Spec:  AdfSpec/PathSpec.lean (lexical resolution of a relative path).
  Every path unadf hands to mkdir / open / utimes for an entry is `outputName ed path name`
  or one of its `leadingDirs`.  The theorems say: for every extraction directory, every
  `path` and every `name` (arbitrary byte strings — '..', '/', '\\', absolute, anything), that
  path is  <extract_dir>/  followed by a relative part that stays inside.
  Not covered by a theorem (runtime, see DESIGN.md): symlinks already present in the
  destination, and the host file system itself; these are exercised by running the real
  binary in a sandbox tree.
-/
import AdfProofs.PathLemmas
namespace Adf.C20
open Adf Spec

/-- the prefix contributed by the user's own `-d` argument -/
def userPrefix (ed : Option Bytes) : Bytes :=
  match ed with
  | some d => d ++ [SLASH]
  | none => []

theorem C20_outputName_shape (ed : Option Bytes) (path name : Bytes) :
    outputName ed path name = userPrefix ed ++ outBody path name := by
  cases ed <;> rfl

/-- the image-controlled part of every output path is relative and never leaves its start
    directory, for all byte strings `path` and `name`. -/
theorem C20_body_inside (path name : Bytes) : inside (outBody path name) := by
  unfold inside outBody
  refine ⟨neutralizeLead_head _, ?_⟩
  apply resolve_no_dotdot
  intro hmem
  have h1 := hasDD_of_dotdot_component _ hmem
  have h2 := hasDD_neutralizeLead _ (hasDD_sanitizeDots
    (path ++ (if path.isEmpty then [] else [SLASH]) ++ name))
  rw [h2] at h1; cases h1

/-- every directory created "on the way" (each prefix of the output path that ends before a
    separator) is either a prefix of the user's own `-d` argument or `<extract_dir>/` followed
    by a relative part that stays inside. -/
theorem C20_leadingDirs_inside (ed : Option Bytes) (path name : Bytes) :
    ∀ p ∈ leadingDirs (outputName ed path name),
      p.length < (userPrefix ed).length ∨
      ∃ rel, p = userPrefix ed ++ rel ∧ inside rel := by
  intro p hp
  rw [C20_outputName_shape] at hp
  simp only [leadingDirs, List.mem_filterMap, List.mem_range] at hp
  obtain ⟨i, hi, hpi⟩ := hp
  split at hpi
  · rename_i hcond
    simp only [Option.some.injEq] at hpi
    subst hpi
    by_cases hlt : i < (userPrefix ed).length
    · left; simp [List.length_take]; omega
    · right
      refine ⟨(outBody path name).take (i - (userPrefix ed).length), ?_, ?_⟩
      · rw [List.take_append]
        have : List.take i (userPrefix ed) = userPrefix ed := List.take_of_length_le (by omega)
        rw [this]
      · -- a prefix of the body cut before a '/' has no ".." component either
        generalize hj : i - (userPrefix ed).length = j
        have hjlt : j < (outBody path name).length := by
          simp only [List.length_append] at hi; omega
        have hget : (outBody path name).getD j 0 = SLASH := by
          have := hcond.2
          rw [List.getD_eq_getElem?_getD, List.getElem?_append_right (by omega), hj] at this
          rw [List.getD_eq_getElem?_getD]; exact this
        refine ⟨?_, ?_⟩
        · -- head of a prefix is the head of the body (or the prefix is empty)
          cases hj0 : j with
          | zero => simp
          | succ k =>
            have := (C20_body_inside path name).1
            cases hb : outBody path name with
            | nil => simp
            | cons c r => rw [hb] at this; simpa using this
        · apply resolve_no_dotdot
          intro hmem
          have h1 := hasDD_of_dotdot_component _ hmem
          have h2 := hasDD_of_take _ j hjlt hget h1
          have h3 : hasDD (outBody path name) = false := by
            unfold outBody
            exact hasDD_neutralizeLead _ (hasDD_sanitizeDots _)
          rw [h3] at h2; cases h2
  · cases hpi

/-- non-vacuity / regression witnesses: the hostile names of the property text
    ("dest" + "..", no -d + "/tmp/x", "a" + "../../b"). -/
example : outputName (some [100,101,115,116]) [] [46,46] = [100,101,115,116,47,120,120] := by
  simp [outputName, outBody, sanitizeDots, neutralizeLead, SLASH, BSLASH, DOT, LX, USCORE]
example : outputName none [] [47,116,109,112,47,120] = [95,116,109,112,47,120] := by
  simp [outputName, outBody, sanitizeDots, neutralizeLead, SLASH, BSLASH, DOT, LX, USCORE]
example : outputName none [97] [46,46,47,46,46,47,98] = [97,47,120,120,47,120,120,47,98] := by
  simp [outputName, outBody, sanitizeDots, neutralizeLead, SLASH, BSLASH, DOT, LX, USCORE]

end Adf.C20
