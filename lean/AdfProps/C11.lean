import AdfModel.Api
namespace Adf.C11
theorem C11_placeholder : True := trivial
end Adf.C11
