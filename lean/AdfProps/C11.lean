/-
  C11 — Hostile images: the read path always terminates.
  Every function of the model is total (Lean accepts no other), and every walk carries an explicit bound that is
  fixed BEFORE the walk starts.  That alone would make "termination" vacuous; what is proved here is the substance:
  the amount of work — device accesses, counted by `ioCount` — of each walk of the read path is bounded by a
  function of the VOLUME SIZE only, for every disk content (all pointers, counts, cycles), every state and every
  fault schedule.  The bounds are those of the C code after the `fix:` commits (chain walks bounded by the number of
  blocks, listings by a block budget and a depth limit, the bitmap-extension chain by the volume size, partition
  lists by 512); the correspondence check ties the C loops to these model loops event by event on cyclic images.
  Not covered by a theorem: `adfMountHd`'s lists (bounded by a constant in the model's `Top` layer, checked by
  correspondence), allocation sizes, and the C recursion depth (bounded by ADF_MAX_DIR_DEPTH; observed under ASan).
-/
import AdfProofs.WorkBound
namespace Adf.C11
open Adf

/-- name lookup (`adfNameToEntryBlk`) follows `nextSameHash` for at most (volume size) reads -/
theorem C11_lookup_bounded (c : Cfg) (v : Nat) (ht : Blk) (name : Bytes) (s : St) :
    Post (fun _ => False) c (nameToEntryBlk v ht name) s (fun _ s' =>
      s'.ioCount ≤ s.ioCount + ((c.vol v).lastBlock - (c.vol v).firstBlock + 1)) :=
  nameToEntryBlk_work c v ht name s

/-- directory listing, recursive or not, hash-table or dircache mode: at most 6·(volume size)+2 reads;
    in particular directory cycles and cyclic hash / cache chains end -/
theorem C11_listing_bounded (c : Cfg) (v nSect : Nat) (recurs : Bool) (s : St) :
    Post (fun _ => False) c (getRDirEnt v nSect recurs) s (fun _ s' =>
      s'.ioCount ≤ s.ioCount + 6 * ((c.vol v).lastBlock - (c.vol v).firstBlock + 1) + 2) :=
  getRDirEnt_work c v nSect recurs s

/-- the bitmap loader: at most 26 + 129·(volume size + 2) reads, including cyclic bitmap-extension chains -/
theorem C11_bitmap_bounded (c : Cfg) (v nBlock : Nat) (root : Blk) (s : St) :
    Post AnyFault c (readBitmap v nBlock root) s (fun _ s' =>
      s'.ioCount ≤ s.ioCount + 26 + 129 * ((c.vol v).lastBlock - (c.vol v).firstBlock + 2)) :=
  readBitmap_work c v nBlock root s

/-- the extension-block walk of a seek reads at most the number of extension blocks the file size implies -/
theorem C11_ext_walk_bounded (c : Cfg) (v cnt nSect : Nat) (last : Option Blk) (s : St) :
    Post (fun _ => False) c (readExtBlockNLoop v cnt nSect last) s (fun _ s' => s'.ioCount ≤ s.ioCount + cnt) :=
  readExtBlockNLoop_work c v cnt nSect last s

/-- the potential argument behind the listing bound, exposed: reads so far + 3·(remaining budget) never grows by
    more than 2 over a whole (sub)directory walk -/
theorem C11_listing_potential (c : Cfg) (v : Nat) (recurs : Bool) (fuel depth sect budget : Nat) (s : St) :
    Post (fun _ => False) c (listDir v recurs depth fuel sect budget) s (fun r s' =>
      s'.ioCount + 3 * r.2 ≤ s.ioCount + 3 * budget + 2) :=
  (listing_work c v recurs fuel).2.2 depth sect budget s

end Adf.C11
