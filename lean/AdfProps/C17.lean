/-
  C17 — Initialised, reproducible output.
  The model is a pure function of (configuration, state, operation): there is no notion of stray memory in it, so the
  model-side content of C17 is what makes the comparison with the C code meaningful:
   * `C17_disk_sectors_full`: in every state reachable by ANY program under ANY fault schedule every stored sector
     has exactly 512 defined bytes (a short buffer is zero-padded, never completed from elsewhere);
   * `C17_write_stores_padded`: what a successful write stores is `padTo data 512`, a function of the data alone;
   * typed writers hand 512 bytes to the device whenever the struct image has 128 words;
   * `C17_log_independent`: the outcome of a program (result, disk, memory, counters) does not depend on the
     access log kept in the state — the only component of the state that is not API-visible input.
  That the C library's bytes equal the model's for every history, and do so under differing heap/stack fill patterns
  (pattern/zero builds, wrapped allocator poisoning), is the job of the check (tools/props/C17.py), not of a theorem.
-/
import AdfProofs.IoLemmas
import AdfProofs.LogIndep
import AdfProps.C03
namespace Adf.C17
open Adf

def DiskFull (s : St) : Prop := ∀ n, (s.sector n).length = 512

theorem padTo_length (b : Bytes) (n : Nat) : (padTo b n).length = n := by
  unfold padTo; simp [List.length_take]

theorem sector_insert (s : St) (p n : Nat) (b : Bytes) :
    ({ s with disk := s.disk.insert p b } : St).sector n = if p = n then b else s.sector n := by
  simp only [St.sector]
  rw [Std.HashMap.getD_insert]
  by_cases h : p = n
  · simp [h]
  · have : (p == n) = false := by simpa using h
    simp [this, h]

theorem devWriteRaw_diskFull (c : Cfg) (vol : Option Nat) (p size : Nat) (b : Bytes) (s : St) (h : DiskFull s) :
    DiskFull (devWriteRaw c vol p size b s).2 := by
  unfold devWriteRaw
  have hs : ∀ n, s.tick.2.sector n = s.sector n := fun _ => rfl
  generalize s.tick = t at hs ⊢
  obtain ⟨fail, s'⟩ := t
  simp only at hs ⊢
  intro n
  by_cases hf : fail = true
  · rw [if_pos hf]; exact (hs n) ▸ h n
  · rw [if_neg hf]
    by_cases h2 : p * 512 + size > c.devSize
    · rw [if_pos h2]; exact (hs n) ▸ h n
    · rw [if_neg h2]
      have := sector_insert { s' with trace := Ev.wr vol p size b 0 :: s'.trace } p n (padTo b 512)
      have hsn := hs n
      have hn := h n
      simp only [St.sector] at this hsn hn ⊢
      rw [this]
      by_cases hp : p = n
      · rw [if_pos hp]; exact padTo_length _ _
      · rw [if_neg hp, hsn]; exact hn

theorem devReadRaw_sector (c : Cfg) (vol : Option Nat) (p size : Nat) (s : St) (n : Nat) :
    (devReadRaw c vol p size s).2.sector n = s.sector n := by
  have := (devReadRaw_spec c vol p size s).1
  simp only [St.sector, this]

/-- every primitive keeps the disk made of full 512-byte sectors -/
theorem prim_diskFull (c : Cfg) {β : Type} (pr : Prim β) (s : St) (h : DiskFull s) : DiskFull (runPrim c pr s).2 := by
  cases pr with
  | volRead v n =>
    simp only [runPrim]
    split
    · exact h
    · split
      · exact h
      · intro k; rw [devReadRaw_sector]; exact h k
  | volWrite v n b =>
    simp only [runPrim]
    split
    · exact h
    · split
      · exact h
      · split
        · exact h
        · exact devWriteRaw_diskFull _ _ _ _ _ _ h
  | devRead n size => simp only [runPrim]; intro k; rw [devReadRaw_sector]; exact h k
  | devWrite n size b =>
    simp only [runPrim]
    split
    · exact h
    · exact devWriteRaw_diskFull _ _ _ _ _ _ h
  | getCfg => exact h
  | getMem => exact h
  | setMem m => exact h
  | now => exact h

/-- **every stored sector has exactly 512 defined bytes**, in every state reachable by any program of the library
    model under any fault schedule -/
theorem C17_disk_sectors_full (c : Cfg) {α : Type} (p : Prog α) (s : St) (h : DiskFull s) : DiskFull (run c p s).2 :=
  run_state_inv c DiskFull (fun pr s hs => prim_diskFull c pr s hs) p s h

/-- the empty disk (every sector reads as 512 zero bytes) satisfies the invariant: the premise is reachable -/
theorem C17_empty_disk_full : DiskFull ({} : St) := by
  intro n
  have : ({} : St).sector n = zeroBlock := by simp [St.sector]
  rw [this]; unfold zeroBlock; exact List.length_replicate

/-- what a successful block write stores depends on the data handed over and on nothing else -/
theorem C17_write_stores_padded (c : Cfg) (v n : Nat) (b : Bytes) (s : St) :
    ∃ rc s', run c (volWrite v n b) s = (.ok rc, s') ∧
      (rc = rcOK → s'.disk = s.disk.insert (vsect c v n) (padTo b 512)) ∧ (rc ≠ rcOK → s'.disk = s.disk) := by
  obtain ⟨rc, s', hr, _, h1, h2⟩ := run_volWrite_spec c v n b s
  exact ⟨rc, s', hr, fun h => (h2 h).1, h1⟩

/-- a struct image of 128 words always serialises to a full sector, with or without checksum / fixed fields -/
theorem C17_struct_image_full (b : Blk) (h : b.length = 128) (k : Nat) :
    (bytesOfBlk b).length = 512 ∧ (bytesOfBlk (withSum b k)).length = 512 := by
  refine ⟨C03.C03_block_length b h, C03.C03_block_length _ ?_⟩
  unfold withSum; rw [Blk.setW_length]; exact h

/-- block images decoded from the device always have 128 words, so every read-modify-write cycle writes 512 bytes -/
theorem C17_decoded_image_full (bytes : Bytes) (k : Nat) :
    (bytesOfBlk (withSum (blkOfBytes bytes) k)).length = 512 := by
  have : (blkOfBytes bytes).length = 128 := by
    unfold blkOfBytes
    have hl : (padTo bytes 512).length = 4 * 128 := padTo_length _ _
    generalize padTo bytes 512 = bs at hl
    clear bytes
    have : ∀ (n : Nat) (b : Bytes), b.length = 4 * n → (wordsOf b).length = n := by
      intro n
      induction n with
      | zero => intro b h; have : b = [] := List.eq_nil_of_length_eq_zero (by omega); subst this; rfl
      | succ n ih =>
        intro b h
        match b, h with
        | a :: b' :: c :: d :: rest, h =>
          simp only [wordsOf, List.length_cons]
          rw [ih rest (by simp at h; omega)]
    exact this 128 bs hl
  exact (C17_struct_image_full _ this k).2

/-- the outcome of any program — result, disk, library memory, I/O counters — is the same from two states that
    differ only in the access log: nothing the library writes can depend on anything but the API-visible inputs
    (configuration, disk content, library memory, clock, fault schedule) -/
theorem C17_log_independent (c : Cfg) {α : Type} (p : Prog α) (a b : St) (h : EqUpToLog a b) :
    (run c p a).1 = (run c p b).1 ∧ EqUpToLog (run c p a).2 (run c p b).2 :=
  run_log_independent c p a b h

end Adf.C17
