import AdfModel.Api
namespace Adf.C17
theorem C17_placeholder : True := trivial
end Adf.C17
