/-
  C06 — Read compatibility with an independent decoder on any well-formed image.
  The decoder the C library is compared with at run time is tools/fsck.py (validated on AmigaDOS-made dumps) on
  images written by tools/imgwriter.py with randomised layouts.  The model-side theorems say WHY layout cannot
  matter, for every layout rather than the sampled ones:
   * a name is looked up by walking the chain of its hash slot and the result is the first match — independent of
     where the blocks are, in which order the chain links them, and what lies in unrelated blocks (the statement
     only constrains the sectors of the chain itself);
   * the slot of a name and the match test are functions of the name alone (C15);
   * the i-th byte of a file is in data block ⌊i/dbs⌋ at offset i mod dbs (C01), and that block's number is slot
     71 − k of the header for k < 72, else slot 71 − (k−72) mod 72 of extension block ⌊(k−72)/72⌋ (C01);
   * what `adfFileReadNextBlock` puts in the handle's buffer on success IS the disk content of the block it
     designates (C19), whatever else the disk holds;
   * the metadata reported for an entry is a pure function of its 512-byte header block.
  Links, international characters, and the whole-tree comparison are covered by the run-time comparison only.
  (MANIFEST: partial.)
-/
import AdfProofs.NamespaceLemmas
import AdfProofs.FileReadLemmas
import AdfProofs.WriteReadLemmas
import AdfProps.C01
import AdfProps.C15
namespace Adf.C06
open Adf

/-- layout independence of lookup: two disks that agree on the sectors of the chain give the same answer.
    (Stated through the abstract chain: the result is `lookupSpec` of the chain, which does not mention the disk.) -/
theorem C06_lookup_layout_independent (c : Cfg) (v : Nat) (intl : Bool) (name : Bytes)
    (chain1 chain2 : List (Nat × Blk)) (n1 n2 fuel : Nat) (s1 s2 : St)
    (hne : chain1 ≠ []) (hl1 : chain1.length ≤ fuel) (hl2 : chain2.length ≤ fuel)
    (hf1 : s1.faultAt = none) (hf2 : s2.faultAt = none)
    (hc1 : ChainOn c s1.disk v n1 chain1) (hc2 : ChainOn c s2.disk v n2 chain2)
    (hsame : chain1.map (·.2) = chain2.map (·.2)) :
    ∃ r1 r2 t1 t2, run c (nameToEntryBlkLoop v intl name fuel n1 0) s1 = (.ok r1, t1) ∧
                   run c (nameToEntryBlkLoop v intl name fuel n2 0) s2 = (.ok r2, t2) ∧
                   r1.1.isSome = r2.1.isSome ∧ r1.2.1 = r2.2.1 := by
  have hne2 : chain2 ≠ [] := by
    intro h; rw [h] at hsame; simp at hsame; exact hne hsame
  have p1 := nameToEntryBlkLoop_spec (F := fun _ => False) c v intl name chain1 fuel n1 0 zeroBlk s1 hne hl1 hf1 hc1
  have p2 := nameToEntryBlkLoop_spec (F := fun _ => False) c v intl name chain2 fuel n2 0 zeroBlk s2 hne2 hl2 hf2 hc2
  unfold Post at p1 p2
  rcases h1 : run c (nameToEntryBlkLoop v intl name fuel n1 0) s1 with ⟨r1, t1⟩
  rcases h2 : run c (nameToEntryBlkLoop v intl name fuel n2 0) s2 with ⟨r2, t2⟩
  rw [h1] at p1; rw [h2] at p2
  cases r1 with
  | fault f => exact absurd p1 id
  | ok r1 =>
    cases r2 with
    | fault f => exact absurd p2 id
    | ok r2 =>
      refine ⟨r1, r2, t1, t2, rfl, rfl, ?_⟩
      rw [p1.1, p2.1]
      -- the reference lookup only looks at the blocks, not at their sectors
      have key : ∀ (l1 l2 : List (Nat × Blk)) (u1 u2 : Nat) (b0 : Blk), l1.map (·.2) = l2.map (·.2) →
          (lookupSpec intl name l1 u1 b0).1.isSome = (lookupSpec intl name l2 u2 b0).1.isSome ∧
          (lookupSpec intl name l1 u1 b0).2.1 = (lookupSpec intl name l2 u2 b0).2.1 := by
        intro l1
        induction l1 with
        | nil => intro l2 u1 u2 b0 h; cases l2 with
          | nil => exact ⟨rfl, rfl⟩
          | cons _ _ => simp at h
        | cons a l1 ih =>
          intro l2 u1 u2 b0 h
          cases l2 with
          | nil => simp at h
          | cons a2 l2 =>
            obtain ⟨m1, b1⟩ := a; obtain ⟨m2, b2⟩ := a2
            simp only [List.map_cons, List.cons.injEq] at h
            obtain ⟨hb, ht⟩ := h
            have hb' : b1 = b2 := hb
            subst hb'
            by_cases hm : nameMatches intl name b1
            · rw [lookupSpec_match _ _ _ _ _ _ _ hm, lookupSpec_match _ _ _ _ _ _ _ hm]; simp
            · cases l1 with
              | nil =>
                cases l2 with
                | nil => rw [lookupSpec_single _ _ _ _ _ _ hm, lookupSpec_single _ _ _ _ _ _ hm]; simp
                | cons _ _ => simp at ht
              | cons x l1 =>
                cases l2 with
                | nil => simp at ht
                | cons y l2 =>
                  rw [lookupSpec_step _ _ _ _ _ _ _ _ hm, lookupSpec_step _ _ _ _ _ _ _ _ hm]
                  exact ih (y :: l2) m1 m2 b1 ht
      exact key chain1 chain2 0 0 zeroBlk hsame

/-- the buffer after a successful next-block IS the designated block's disk content (C19), any layout -/
theorem C06_buffer_is_disk_content (c : Cfg) (h : FileH) (s : St) :
    Post AnyFault c (fileReadNextBlock h) s (fun r s' =>
      r.1 = rcOK → r.2.curData = padTo ((s.sector (vsect c h.vol r.2.curDataPtr)).take 512) 512) := by
  refine Post.mono _ _ _ _ _ (fileReadNextBlock_spec c h s) ?_
  rintro r s' ⟨_, _, _, h3⟩ hok
  exact (h3 hok).2.2.1

/-- entry metadata is a function of the header block alone -/
theorem C06_metadata_function_of_block (b1 b2 : Blk) (h : b1 = b2) : entBlock2Entry b1 = entBlock2Entry b2 := by
  rw [h]

/-- what `adfWriteEntryBlock` stores, `adfReadEntryBlock` accepts (C03 side of read compatibility): after a successful
    write of a well-formed header struct the sector holds a valid entry block, namely the struct with its checksum -/
theorem C06_written_entry_is_readable (c : Cfg) (v n : Nat) (e : Blk) (s : St) (hf : s.faultAt = none)
    (hr : Readable c v n) (hrw : (c.vol v).readOnly = false) (hwf : BlkWF e) (hty : e.w F_type = T_HEADER) :
    ∃ s', run c (writeEntryBlock v n e) s = (.ok rcOK, s') ∧ s'.faultAt = none ∧ s'.mem = s.mem ∧
          EntryAt c s'.disk v n (withSum e F_checkSum) :=
  writeEntryBlock_establishes c v n e s hf hr hrw hwf hty

end Adf.C06
