import AdfModel.Api
namespace Adf.C06
theorem C06_placeholder : True := trivial
end Adf.C06
