/-
  C19 — Device I/O failures are contained.
  Quantifiers: every state, every fault schedule (`faultAt`/`faultEvery` are arbitrary fields of the state), every
  handle.  What is proved on the model:
   * a block read always returns; status OK means the data is byte-for-byte the addressed sector and the access was
     not a failing one; any other status delivers no data; the disk and the library memory are untouched;
   * a block write that does not report OK leaves the disk byte-for-byte unchanged; one that reports OK replaced
     exactly the addressed sector;
   * `adfFileReadNextBlock` never moves the cursor on a failure (index, buffer, buffer's block number, position), and
     on success its buffer IS the disk content of the block it designates;
   * the loop of `adfFileRead` (handle not open for writing) never touches the disk, delivers at most the
     requested number of bytes, only ever appends to what it delivered, and moves the position by at most the request.
   * `adfFileSeek` / `adfFileRead` on a read-mode handle with a valid buffer: every byte delivered is a byte of a data
     block as it is on the disk — never a stale, unloaded or failed buffer — through every fallback path of the seek.
  Not proved here (left to the trace-exact correspondence, the byte-array oracle under fault enumeration, and ASan):
  that the block the cursor designates is the right one for the offset for every layout (C01 gives the arithmetic),
  handles open for writing, and real memory safety of the C error paths.
-/
import AdfProofs.FileReadLemmas
import AdfProofs.SeekLemmas
namespace Adf.C19
open Adf

/-- a block read under any fault schedule -/
theorem C19_read_contained (c : Cfg) (v n : Nat) (s : St) :
    ∃ rc buf s', run c (volRead v n) s = (.ok (rc, buf), s') ∧ s'.mem = s.mem ∧ s'.disk = s.disk ∧
      (rc = rcOK → buf = (s.sector (vsect c v n)).take 512 ∧ s.tick.1 = false) ∧ (rc ≠ rcOK → buf = []) :=
  run_volRead_spec c v n s

/-- a scheduled failure is reported: when the schedule fails this access, the status is not OK -/
theorem C19_fault_reported_read (c : Cfg) (v n : Nat) (s : St) (hf : s.tick.1 = true) :
    ∃ rc buf s', run c (volRead v n) s = (.ok (rc, buf), s') ∧ rc ≠ rcOK ∧ buf = [] := by
  obtain ⟨rc, buf, s', hr, _, _, h1, h2⟩ := run_volRead_spec c v n s
  have hne : rc ≠ rcOK := fun h => by have := (h1 h).2; rw [hf] at this; cases this
  exact ⟨rc, buf, s', hr, hne, h2 hne⟩

/-- a block write under any fault schedule: not OK ⇒ disk unchanged; OK ⇒ exactly that sector replaced -/
theorem C19_write_contained (c : Cfg) (v n : Nat) (b : Bytes) (s : St) :
    ∃ rc s', run c (volWrite v n b) s = (.ok rc, s') ∧ s'.mem = s.mem ∧
      (rc ≠ rcOK → s'.disk = s.disk) ∧
      (rc = rcOK → s'.disk = s.disk.insert (vsect c v n) (padTo b 512) ∧ s.tick.1 = false) :=
  run_volWrite_spec c v n b s

theorem C19_fault_reported_write (c : Cfg) (v n : Nat) (b : Bytes) (s : St) (hf : s.tick.1 = true) :
    ∃ rc s', run c (volWrite v n b) s = (.ok rc, s') ∧ rc ≠ rcOK ∧ s'.disk = s.disk := by
  obtain ⟨rc, s', hr, _, h1, h2⟩ := run_volWrite_spec c v n b s
  have hne : rc ≠ rcOK := fun h => by have := (h2 h).2; rw [hf] at this; cases this
  exact ⟨rc, s', hr, hne, h1 hne⟩

/-- the cursor never advances on a failed read and the buffer is the designated block's disk content on success -/
theorem C19_next_block (c : Cfg) (h : FileH) (s : St) :
    Post AnyFault c (fileReadNextBlock h) s (fun r s' =>
      s'.disk = s.disk ∧ Kept h r.2 ∧
      (r.1 ≠ rcOK → r.2.nDataBlock = h.nDataBlock ∧ r.2.curData = h.curData ∧ r.2.curDataPtr = h.curDataPtr ∧ r.2.pos = h.pos) ∧
      (r.1 = rcOK → r.2.nDataBlock = h.nDataBlock + 1 ∧ r.2.pos = h.pos ∧
          r.2.curData = padTo ((s.sector (vsect c h.vol r.2.curDataPtr)).take 512) 512 ∧
          sectLt2 r.2.curDataPtr = false)) :=
  fileReadNextBlock_spec c h s

/-- short reads only: never more than requested, only appended, disk untouched -/
theorem C19_read_loop (c : Cfg) (dbs doff fuel : Nat) (h : FileH) (remaining : Nat) (acc : Bytes) (s : St)
    (hro : h.modeWrite = false) :
    Post AnyFault c (fileReadLoop dbs doff fuel h remaining acc) s (fun r s' =>
      s'.disk = s.disk ∧ acc <+: r.1 ∧ r.1.length ≤ acc.length + remaining ∧ r.2.pos ≤ h.pos + remaining ∧
      r.2.modeWrite = false) :=
  fileReadLoop_spec c dbs doff fuel h remaining acc s hro

/-- non-vacuity: a schedule that fails the very next access exists and `tick` says so -/
example : ({ faultAt := some 0 } : St).tick.1 = true := by decide

/-- **a read never delivers bytes that are not on the disk.**  For a handle not open for writing whose buffer is valid
    on entry (it holds no block, or the block it designates as that block is on the disk — true of every freshly opened
    handle and preserved by this very theorem), for every disk content, file layout and fault schedule: every byte
    `adfFileRead` delivers is a byte of a data block of the volume as it is on the disk (a concatenation of slices of
    sector images at the data offset) — never a stale, unloaded or failed buffer; the disk is untouched; and on exit
    the buffer is valid again unless a seek met a block pointer < 2 / negative in the file's own lists. -/
theorem C19_read_returns_disk_bytes (c : Cfg) (h : FileH) (n : Nat) (s : St)
    (hro : h.modeWrite = false) (hb : BufValid c s.disk h) :
    Post AnyFault c (fileRead h n) s (fun r s' =>
      s'.disk = s.disk ∧ Same h r.2 ∧ Weak c s.disk r.2 ∧ FromDisk c s.disk h.vol (dataOff (c.vol h.vol)) r.1) :=
  fileRead_fromDisk c h n s hro hb

/-- every seek of a read-mode handle: disk untouched; success means the buffer IS the designated block's disk content
    (or the file is empty); failure leaves no block or a rejected pointer — under any fault schedule, including the
    fallback paths (extension blocks unreadable, OFS chain walk) -/
theorem C19_seek_loads_or_fails (c : Cfg) (h : FileH) (pos : Nat) (s : St)
    (hro : h.modeWrite = false) (hb : BufValid c s.disk h) :
    Post AnyFault c (seek h pos) s (fun r s' =>
      s'.disk = s.disk ∧ Same h r.2 ∧ Weak c s.disk r.2 ∧ (r.1 = rcOK → Loaded c s.disk r.2 ∨ h.byteSize = 0)) :=
  (seek_family c SEEK_FUEL).1 h pos s hro hb

/-- non-vacuity: a handle that holds no block is valid, whatever its buffer contains -/
example (c : Cfg) (disk : Std.HashMap Nat Bytes) (h : FileH) (h0 : h.curDataPtr = 0) : BufValid c disk h :=
  BufValid.of_zero h0

end Adf.C19
