import AdfModel.Api
namespace Adf.C19
theorem C19_placeholder : True := trivial
end Adf.C19
