/-
  C08 — Graceful exhaustion: the allocator's side of it.
  The library asks for blocks through adfGetFreeBlocks (one block, or extension block + data block together).
  Theorems (for the model's `getFreeBlocks`, i.e. for every volume state, any number of blocks):
   * all-or-nothing: when it reports failure NOTHING has changed — no device access, no change of the in-memory
     bitmap (so a failed allocation leaks nothing and the caller can report "volume full" with the state intact);
   * it fails only when the volume really has fewer free blocks than requested (C04_scan_complete), and
     succeeds whenever enough are free (C04_scan_succeeds): after entries are deleted the freed space can be
     allocated again to the same capacity.
   * the callers that create entries: `adfCreateEntry`, `adfCreateDir` and `adfCreateFile` on a volume whose scan finds
     no free block fail with NO device write and the library's memory (bitmap, free count) unchanged — for every
     directory and chain content on the disk, every flavour and every fault schedule; "no free block" is exactly
     "no block of the volume is marked free" (`C08_volfull_iff_no_free_block`).
   * the data-write path: `adfFileCreateNextBlock` on a full volume fails at each of its three allocation sites with no
     device write, bitmap and handle (header copy, position, buffer) unchanged, and the write loop standing at end of file
     on a block boundary returns exactly the count stored so far.
  NOT proved (MANIFEST): that the bytes counted as stored are the bytes later read back (whole-history refinement), the
  exhaustion inside directory-cache growth, and the refill to the same capacity over a history; the exhaustion profiles of
  tools/props/C08.py judge those on the real code.
-/
import AdfProofs.BitmapLemmas
import AdfProofs.ProgLemmas
import AdfProps.C04
import AdfProofs.ExhaustLemmas
namespace Adf.C08
open Adf

theorem run_then_pure_ne {β α : Type} (c : Cfg) (p : Prog β) (a : α) (s : St) (x : α) (hx : x ≠ a) :
    (run c (p >>= fun _ => (pure a : Prog α)) s).1 ≠ Res.ok x := by
  rw [run_bind']
  rcases run c p s with ⟨r, s'⟩
  cases r with
  | ok b => simp only [run_pure']; intro h; injection h with h; exact hx h.symm
  | fault f => intro h; cases h

/-- a failed allocation changes nothing: same disk, same trace, same memory -/
theorem C08_alloc_all_or_nothing (c : Cfg) (v nb : Nat) (s : St)
    (h : (run c (getFreeBlocks v nb) s).1 = Res.ok none) :
    (run c (getFreeBlocks v nb) s).2 = s := by
  unfold getFreeBlocks at *
  simp only [run_bind', run_getVolCfg, run_getVolMem] at *
  split at h
  · simp at h
  · rename_i hg
    rw [if_neg hg] at ⊢
    split at h
    · exfalso
      exact run_then_pure_ne c _ _ s none (by simp) h
    · rename_i hl
      rw [if_neg hl]
      rfl

/-- a failed allocation means the volume has fewer than `nb` free blocks (in terms of the pure scan) -/
theorem C08_fails_only_when_full (tbl : List Blk) (root last nb : Nat) (hroot : 2 < root) (hr : root ≤ last)
    (hfail : (scanFree tbl root last (last + 2) root nb).length ≠ nb) :
    ((circ root last).filter (bmIsFree tbl)).length < nb := by
  have hle := (C04.C04_alloc_contract tbl root last (last + 2) nb hroot hr (by omega)).2.2
  have hlt : (scanFree tbl root last (last + 2) root nb).length < nb := by omega
  rw [scanFree_eq, scanSeq_full root last (last + 2) hroot hr (by omega), List.length_take] at hlt
  omega

/-- and conversely: with enough free blocks the request is served (refill to the same capacity) -/
theorem C08_serves_when_possible (tbl : List Blk) (root last nb : Nat) (hroot : 2 < root) (hr : root ≤ last)
    (h : nb ≤ ((circ root last).filter (bmIsFree tbl)).length) :
    (scanFree tbl root last (last + 2) root nb).length = nb :=
  C04.C04_scan_succeeds tbl root last (last + 2) nb hroot hr (by omega) h

/-- witness: the 40-block table of C04 has 36 free blocks: 36 can be had, 37 cannot -/
example : (scanFree C04.smallTbl 20 39 41 20 36).length = 36 ∧ (scanFree C04.smallTbl 20 39 41 20 37).length ≠ 37 := by decide

/-- "the scan finds nothing" is exactly "no block of the volume is marked free" -/
theorem C08_volfull_iff_no_free_block (tbl : List Blk) (root last : Nat) (hroot : 2 < root) (hr : root ≤ last) :
    (scanFree tbl root last (last + 2) root 1).length ≠ 1 ↔ ((circ root last).filter (bmIsFree tbl)).length = 0 := by
  constructor
  · intro h; have := C08_fails_only_when_full tbl root last 1 hroot hr h; omega
  · intro h hs
    rw [scanFree_eq, scanSeq_full root last (last + 2) hroot hr (by omega), List.length_take] at hs
    omega

/-- creating an entry on a full volume: refused, nothing written, memory (bitmap included) unchanged -/
theorem C08_create_entry_full_changes_nothing (c : Cfg) (v : Nat) (dir : Blk) (name : Bytes) (s : St)
    (hfull : VolFull c v s.mem) :
    Post AnyFault c (createEntry v dir name) s (fun r s' => r = (none, dir) ∧ Untouched s s') :=
  createEntry_full_refused c v dir name s hfull

theorem C08_create_dir_full_changes_nothing (c : Cfg) (v nParent : Nat) (name : Bytes) (s : St)
    (hfull : VolFull c v s.mem) :
    Post AnyFault c (createDir v nParent name) s (fun rc s' => rc ≠ rcOK ∧ Untouched s s') :=
  createDir_full_refused c v nParent name s hfull

theorem C08_create_file_full_changes_nothing (c : Cfg) (v nParent : Nat) (name : Bytes) (s : St)
    (hfull : VolFull c v s.mem) :
    Post AnyFault c (createFile v nParent name) s (fun r s' => r.1 ≠ rcOK ∧ Untouched s s') :=
  createFile_full_refused c v nParent name s hfull

/-- with no free block a request for two blocks fails too -/
theorem C08_full_means_no_pair (c : Cfg) (v : Nat) (m : Mem) (hroot : 2 < (c.vol v).rootBlock)
    (hr : (c.vol v).rootBlock ≤ (c.vol v).lastBlock - (c.vol v).firstBlock) (h : VolFull c v m) : VolFull2 c v m := by
  unfold VolFull at h; unfold VolFull2
  have h0 := (C08_volfull_iff_no_free_block _ _ _ hroot hr).mp h
  intro hs
  rw [scanFree_eq, scanSeq_full _ _ _ hroot hr (by omega), List.length_take] at hs
  omega

/-- **the write path on a full volume** (`adfFileCreateNextBlock`, all three allocation sites — data block listed in the
    header, extension block + data block, data block listed in an extension block): the call fails, no write reaches the
    device, bitmap and memory are unchanged, and the handle's header copy, position and data buffer are kept -/
theorem C08_next_block_full_changes_nothing (c : Cfg) (h : FileH) (s : St) (hroot : 2 < (c.vol h.vol).rootBlock)
    (hr : (c.vol h.vol).rootBlock ≤ (c.vol h.vol).lastBlock - (c.vol h.vol).firstBlock) (hfull : VolFull c h.vol s.mem) :
    Post AnyFault c (fileCreateNextBlock h) s (fun r s' => r.1 ≠ rcOK ∧ Untouched s s' ∧ KeptW h r.2) :=
  fileCreateNextBlock_full c h s hfull (C08_full_means_no_pair c h.vol s.mem hroot hr hfull)

/-- **short count**: `adfFileWrite`'s loop, standing at end of file on a block boundary of a full volume, returns exactly
    the count stored so far and changes nothing -/
theorem C08_write_loop_full_short_count (c : Cfg) (dbs doff fuel : Nat) (h : FileH) (buf : Bytes) (written : Nat) (s : St)
    (hroot : 2 < (c.vol h.vol).rootBlock)
    (hr : (c.vol h.vol).rootBlock ≤ (c.vol h.vol).lastBlock - (c.vol h.vol).firstBlock) (hfull : VolFull c h.vol s.mem)
    (hb : h.pos % dbs = 0) (he : h.pos = h.byteSize) :
    Post AnyFault c (fileWriteLoop dbs doff fuel h buf written) s (fun r s' => r.1 = written ∧ Untouched s s' ∧ KeptW h r.2) :=
  fileWriteLoop_full_at_boundary c dbs doff fuel h buf written s hfull (C08_full_means_no_pair c h.vol s.mem hroot hr hfull) hb he

/-- witness for `VolFull`: a 40-block table with every bit clear has no free block -/
example : (scanFree [List.replicate 128 0] 20 39 41 20 1).length ≠ 1 := by decide

end Adf.C08
