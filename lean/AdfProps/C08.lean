/-
  C08 — Graceful exhaustion: the allocator's side of it.
  The library asks for blocks through adfGetFreeBlocks (one block, or extension block + data block together).
  Theorems (for the model's `getFreeBlocks`, i.e. for every volume state, any number of blocks):
   * all-or-nothing: when it reports failure NOTHING has changed — no device access, no change of the in-memory
     bitmap (so a failed allocation leaks nothing and the caller can report "volume full" with the state intact);
   * it fails only when the volume really has fewer free blocks than requested (C04_scan_complete), and
     succeeds whenever enough are free (C04_scan_succeeds): after entries are deleted the freed space can be
     allocated again to the same capacity.
  NOT proved (MANIFEST): that every caller's failure branch leaves the abstract state unchanged; the exhaustion
  profiles of tools/props/C08.py judge that on the real code.
-/
import AdfProofs.BitmapLemmas
import AdfProofs.ProgLemmas
import AdfProps.C04
namespace Adf.C08
open Adf

theorem run_then_pure_ne {β α : Type} (c : Cfg) (p : Prog β) (a : α) (s : St) (x : α) (hx : x ≠ a) :
    (run c (p >>= fun _ => (pure a : Prog α)) s).1 ≠ Res.ok x := by
  rw [run_bind']
  rcases run c p s with ⟨r, s'⟩
  cases r with
  | ok b => simp only [run_pure']; intro h; injection h with h; exact hx h.symm
  | fault f => intro h; cases h

/-- a failed allocation changes nothing: same disk, same trace, same memory -/
theorem C08_alloc_all_or_nothing (c : Cfg) (v nb : Nat) (s : St)
    (h : (run c (getFreeBlocks v nb) s).1 = Res.ok none) :
    (run c (getFreeBlocks v nb) s).2 = s := by
  unfold getFreeBlocks at *
  simp only [run_bind', run_getVolCfg, run_getVolMem] at *
  split at h
  · simp at h
  · rename_i hg
    rw [if_neg hg] at ⊢
    split at h
    · exfalso
      exact run_then_pure_ne c _ _ s none (by simp) h
    · rename_i hl
      rw [if_neg hl]
      rfl

/-- a failed allocation means the volume has fewer than `nb` free blocks (in terms of the pure scan) -/
theorem C08_fails_only_when_full (tbl : List Blk) (root last nb : Nat) (hroot : 2 < root) (hr : root ≤ last)
    (hfail : (scanFree tbl root last (last + 2) root nb).length ≠ nb) :
    ((circ root last).filter (bmIsFree tbl)).length < nb := by
  have hle := (C04.C04_alloc_contract tbl root last (last + 2) nb hroot hr (by omega)).2.2
  have hlt : (scanFree tbl root last (last + 2) root nb).length < nb := by omega
  rw [scanFree_eq, scanSeq_full root last (last + 2) hroot hr (by omega), List.length_take] at hlt
  omega

/-- and conversely: with enough free blocks the request is served (refill to the same capacity) -/
theorem C08_serves_when_possible (tbl : List Blk) (root last nb : Nat) (hroot : 2 < root) (hr : root ≤ last)
    (h : nb ≤ ((circ root last).filter (bmIsFree tbl)).length) :
    (scanFree tbl root last (last + 2) root nb).length = nb :=
  C04.C04_scan_succeeds tbl root last (last + 2) nb hroot hr (by omega) h

/-- witness: the 40-block table of C04 has 36 free blocks: 36 can be had, 37 cannot -/
example : (scanFree C04.smallTbl 20 39 41 20 36).length = 36 ∧ (scanFree C04.smallTbl 20 39 41 20 37).length ≠ 37 := by decide

end Adf.C08
