import AdfModel.Api
namespace Adf.C08
theorem C08_placeholder : True := trivial
end Adf.C08
