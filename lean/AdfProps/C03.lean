/-
  C03 — On-disk format conformance: the codecs.
  Model: AdfModel/Basic.lean (big-endian words), AdfModel/Blocks.lean (block images, checksums, the typed write
  functions that force type / secType / self-describing fields).
  Theorems: (1) the byte <-> word codec of a 512-byte block is a bijection; (2) the checksum the write functions
  store is the one the read functions recompute (and makes the words of the block sum to zero mod 2^32, which is
  the format's definition); (3) each typed write function stores the type / secondary type / fixed fields the
  format prescribes, whatever the caller left in the structure.
  NOT proved (MANIFEST): that every image a history produces is well-formed; decided on explored histories
  by the independent decoder tools/fsck.py (validated on five AmigaDOS-made images).
-/
import AdfProofs.BitmapLemmas
namespace Adf.C03
open Adf

/-- (1a) decoding the encoding of 32-bit words gives the words back -/
theorem C03_words_roundtrip (ws : List Nat) (h : ∀ w ∈ ws, w < 4294967296) : wordsOf (bytesOfWords ws) = ws :=
  wordsOf_bytesOfWords ws h

theorem be32_unbe32 (a b c d : UInt8) : be32 (unbe32 a b c d) = [a, b, c, d] := by
  have ha := a.toNat_lt; have hb := b.toNat_lt; have hc := c.toNat_lt; have hd := d.toNat_lt
  unfold be32 unbe32
  have e0 : (a.toNat * 16777216 + b.toNat * 65536 + c.toNat * 256 + d.toNat) / 16777216 % 256 = a.toNat := by omega
  have e1 : (a.toNat * 16777216 + b.toNat * 65536 + c.toNat * 256 + d.toNat) / 65536 % 256 = b.toNat := by omega
  have e2 : (a.toNat * 16777216 + b.toNat * 65536 + c.toNat * 256 + d.toNat) / 256 % 256 = c.toNat := by omega
  have e3 : (a.toNat * 16777216 + b.toNat * 65536 + c.toNat * 256 + d.toNat) % 256 = d.toNat := by omega
  rw [e0, e1, e2, e3]
  simp

/-- (1b) encoding the decoding of a byte string whose length is a multiple of 4 gives the bytes back -/
theorem C03_bytes_roundtrip : ∀ (n : Nat) (bs : Bytes), bs.length = 4 * n → bytesOfWords (wordsOf bs) = bs := by
  intro n
  induction n with
  | zero => intro bs h; have : bs = [] := List.eq_nil_of_length_eq_zero (by omega); subst this; rfl
  | succ n ih =>
    intro bs h
    match bs, h with
    | a :: b :: c :: d :: rest, h =>
      simp only [wordsOf, bytesOfWords, be32_unbe32]
      rw [ih rest (by simp at h; omega)]
      rfl

/-- a block read from the device and written back unchanged is byte-identical -/
theorem C03_block_roundtrip (bs : Bytes) (h : bs.length = 512) : bytesOfBlk (blkOfBytes bs) = bs := by
  unfold bytesOfBlk blkOfBytes
  have hp : padTo bs 512 = bs := by
    unfold padTo
    rw [List.take_append_of_le_length (by omega), List.take_of_length_le (by omega)]
  rw [hp]
  exact C03_bytes_roundtrip 128 bs (by omega)

/-- every encoded block image of 128 words is exactly 512 bytes -/
theorem C03_block_length (b : Blk) (h : b.length = 128) : (bytesOfBlk b).length = 512 := by
  unfold bytesOfBlk; rw [bytesOfWords_length, h]

/-! (2) checksums -/

theorem sumSkip_lt (ws : List Nat) (i k : Nat) : sumSkip ws i k < 4294967296 := by
  cases ws with
  | nil => simp [sumSkip]
  | cons w ws => rw [sumSkip]; exact Nat.mod_lt _ (by decide)

/-- the checksum does not depend on what is stored in the checksum field itself -/
theorem sumSkip_set_skip (ws : List Nat) : ∀ (i j v : Nat), sumSkip (ws.set j v) i (i + j) = sumSkip ws i (i + j) := by
  induction ws with
  | nil => intro i j v; rfl
  | cons w ws ih =>
    intro i j v
    cases j with
    | zero => simp [sumSkip]
    | succ j =>
      simp only [List.set_cons_succ, sumSkip]
      have : i + (j + 1) = (i + 1) + j := by omega
      rw [this, ih (i + 1) j v]

theorem C03_checksum_verifies (b : Blk) (k : Nat) (hk : k < b.length) :
    normalSum (withSum b k) k = (withSum b k).w k := by
  unfold withSum
  have h1 : normalSum (b.setW k (normalSum b k)) k = normalSum b k := by
    unfold normalSum Blk.setW
    have := sumSkip_set_skip b 0 k (normalSum b k % 4294967296)
    simp only [Nat.zero_add] at this
    unfold normalSum at this
    rw [this]
  rw [h1]
  have hlt : normalSum b k < 4294967296 := by unfold normalSum; exact Nat.mod_lt _ (by decide)
  exact (Blk.w_setW_same b k _ hk hlt).symm

/-- sum of all words from index i on -/
def sumAll : List Nat → Nat
  | [] => 0
  | w :: ws => (w + sumAll ws) % 4294967296

theorem sumAll_lt (ws : List Nat) : sumAll ws < 4294967296 := by
  cases ws with
  | nil => simp [sumAll]
  | cons w ws => rw [sumAll]; exact Nat.mod_lt _ (by decide)

/-- once the skipped index lies behind, nothing is left out any more -/
theorem sumSkip_past (l : List Nat) : ∀ (i k : Nat), k < i → sumSkip l i k = sumAll l := by
  induction l with
  | nil => intro i k _; rfl
  | cons x l ih =>
    intro i k h
    have hne : i ≠ k := by omega
    simp only [sumSkip, sumAll, hne, ↓reduceIte]
    rw [ih (i + 1) k (by omega)]

theorem sumAll_set (ws : List Nat) : ∀ (i j v : Nat), j < ws.length → v < 4294967296 →
    sumAll (ws.set j v) = (sumSkip ws i (i + j) + v) % 4294967296 := by
  induction ws with
  | nil => intro i j v h; simp at h
  | cons w ws ih =>
    intro i j v hj hv
    cases j with
    | zero =>
      simp only [List.set_cons_zero, sumAll, sumSkip, Nat.add_zero, ↓reduceIte, Nat.zero_add]
      rw [sumSkip_past ws (i + 1) i (by omega)]
      have := sumAll_lt ws
      omega
    | succ j =>
      have hne : i ≠ i + (j + 1) := by omega
      simp only [List.set_cons_succ, sumAll, sumSkip, hne, ↓reduceIte]
      have e : i + (j + 1) = (i + 1) + j := by omega
      rw [ih (i + 1) j v (by simpa using hj) hv, e]
      have := sumSkip_lt ws (i + 1) (i + 1 + j)
      omega

/-- (2b) with the stored checksum, all words of the block sum to zero modulo 2^32 — the format's definition of a
    valid header / extension / data / cache block checksum (and, with field 0, of a bitmap page) -/
theorem C03_checksum_zero_sum (b : Blk) (k : Nat) (hk : k < b.length) : sumAll (withSum b k) = 0 := by
  unfold withSum Blk.setW
  have hlt : normalSum b k % 4294967296 < 4294967296 := Nat.mod_lt _ (by decide)
  have := sumAll_set b 0 k (normalSum b k % 4294967296) hk hlt
  simp only [Nat.zero_add] at this
  rw [this]
  unfold normalSum
  have := sumSkip_lt b 0 k
  omega

/-! (3) the typed write functions force the fields the format prescribes -/

theorem setW_chain_get (b : Blk) (i v : Nat) (hi : i < b.length) : (b.setW i v).w i = v % 4294967296 := by
  unfold Blk.w Blk.setW
  simp [List.getD_eq_getElem?_getD, hi]

/-- a root block is always written as T_HEADER / ST_ROOT with hash table size 72 and zero header key, high seq,
    first data, next-same-hash and parent -/
theorem C03_root_fixed (r : Blk) (h : r.length = 128) :
    let r' := rootFixed r
    r'.w F_type = T_HEADER ∧ r'.w F_headerKey = 0 ∧ r'.w F_highSeq = 0 ∧ r'.w F_dataSize = 72 ∧
    r'.w F_firstData = 0 ∧ r'.w F_nextSameHash = 0 ∧ r'.w F_parent = 0 ∧ r'.w F_secType = ST_ROOT := by
  simp only [rootFixed, F_type, F_headerKey, F_highSeq, F_dataSize, F_firstData, F_nextSameHash, F_parent, F_secType,
    T_HEADER, ST_ROOT]
  refine ⟨?_, ?_, ?_, ?_, ?_, ?_, ?_, ?_⟩ <;>
  · simp [Blk.w, Blk.setW, List.getD_eq_getElem?_getD, List.getElem?_set, h]

theorem C03_dir_fixed (d : Blk) (h : d.length = 128) :
    let d' := dirFixed d
    d'.w F_type = T_HEADER ∧ d'.w F_highSeq = 0 ∧ d'.w F_dataSize = 0 ∧ d'.w F_secType = ST_DIR := by
  simp only [dirFixed, F_type, F_highSeq, F_dataSize, F_secType, T_HEADER, ST_DIR]
  refine ⟨?_, ?_, ?_, ?_⟩ <;>
  · simp [Blk.w, Blk.setW, List.getD_eq_getElem?_getD, List.getElem?_set, h]

theorem C03_fileHdr_fixed (f : Blk) (h : f.length = 128) :
    let f' := fileHdrFixed f
    f'.w F_type = T_HEADER ∧ f'.w F_dataSize = 0 ∧ f'.w F_secType = ST_FILE := by
  simp only [fileHdrFixed, F_type, F_dataSize, F_secType, T_HEADER, ST_FILE]
  refine ⟨?_, ?_, ?_⟩ <;>
  · simp [Blk.w, Blk.setW, List.getD_eq_getElem?_getD, List.getElem?_set, h]

theorem C03_fileExt_fixed (f : Blk) (h : f.length = 128) :
    let f' := fileExtFixed f
    f'.w F_type = T_LIST ∧ f'.w F_secType = ST_FILE ∧ f'.w F_dataSize = 0 ∧ f'.w F_firstData = 0 := by
  simp only [fileExtFixed, F_type, F_dataSize, F_secType, F_firstData, T_LIST, ST_FILE]
  refine ⟨?_, ?_, ?_, ?_⟩ <;>
  · simp [Blk.w, Blk.setW, List.getD_eq_getElem?_getD, List.getElem?_set, h]

/-- witness: a concrete (short) word list: the stored checksum verifies and zero-sums -/
example : let b : Blk := [2, 882, 0, 0, 0, 0, 7, 4294967295]
          normalSum (withSum b 5) 5 = (withSum b 5).w 5 ∧ sumAll (withSum b 5) = 0 := by
  decide

end Adf.C03
