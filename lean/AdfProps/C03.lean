import AdfModel.Api
namespace Adf.C03
theorem C03_placeholder : True := trivial
end Adf.C03
