import AdfModel.Api
namespace Adf.C02
theorem C02_placeholder : True := trivial
end Adf.C02
