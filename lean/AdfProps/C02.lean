/-
  C02 — Namespace fidelity.
  What is proved on the model (for every chain layout on the disk, every position of the entry in its chain, every
  name and case variant, both case-folding tables):
   * lookup refines the abstract map "first entry of the slot's chain whose name is `sameName`": the block returned
     by `adfNameToEntryBlk` is the first match, wherever it sits (head, middle, tail); no match ⇒ not found, and the
     tail of the chain is reported for linking;
   * the comparison is the equivalence relation of C15, and two equal names always live in the same slot (C15), so a
     name has at most one reachable entry per directory as long as creation refuses duplicates — which it does:
   * `adfCreateEntry` with a name that already exists returns failure having written nothing, with the bitmap and all
     other library memory untouched (first of the "failed calls change nothing" cases; it is the kernel shared by
     create-file, create-directory and rename's destination).
  Everything else of C02 — the full tree equality over histories, delete/rename/move, every other failing call, free
  block counts — is decided on the real code by the history checks against the reference tree model
  (tools/spec.py) and the independent decoder, with the model tied trace-exactly.  (MANIFEST: partial.)
-/
import AdfProofs.NamespaceLemmas
import AdfProps.C15
namespace Adf.C02
open Adf

/-- lookup over any chain on a healthy device equals the reference lookup -/
theorem C02_lookup_refines (c : Cfg) (v : Nat) (intl : Bool) (name : Bytes) (chain : List (Nat × Blk))
    (fuel n upd : Nat) (last : Blk) (s : St)
    (hne : chain ≠ []) (hlen : chain.length ≤ fuel) (hf : s.faultAt = none) (hch : ChainOn c s.disk v n chain) :
    Post (fun _ => False) c (nameToEntryBlkLoop v intl name fuel n upd) s (fun r s' =>
      r = lookupSpec intl name chain upd last ∧ s'.disk = s.disk ∧ s'.faultAt = none ∧ s'.mem = s.mem ∧
      writesOf s'.trace = writesOf s.trace) :=
  nameToEntryBlkLoop_spec c v intl name chain fuel n upd last s hne hlen hf hch

/-- the reference lookup returns the first match, with the block preceding it as the update point -/
theorem C02_first_match (intl : Bool) (name : Bytes) (pre : List (Nat × Blk)) (n : Nat) (b : Blk)
    (post : List (Nat × Blk)) (upd : Nat) (last : Blk)
    (hpre : ∀ e ∈ pre, ¬ nameMatches intl name e.2) (hm : nameMatches intl name b) :
    lookupSpec intl name (pre ++ (n, b) :: post) upd last = (some n, b, (pre.getLast?.map (·.1)).getD upd) :=
  lookupSpec_first_match intl name pre n b post upd last hpre hm

/-- … and "not found" exactly when no entry of the chain matches -/
theorem C02_not_found (intl : Bool) (name : Bytes) (chain : List (Nat × Blk)) (upd : Nat) (last : Blk)
    (hne : chain ≠ []) (hno : ∀ e ∈ chain, ¬ nameMatches intl name e.2) :
    (lookupSpec intl name chain upd last).1 = none := by
  rw [lookupSpec_none intl name chain upd last hne hno]

/-- the comparison used along the chain is C15's `sameName` on the stored name -/
theorem C02_comparison_is_sameName (intl : Bool) (name : Bytes) (b : Blk) (hb : b.nameLen ≤ 30) :
    nameMatches intl name b ↔ sameName intl name (b.bytes O_name b.nameLen) = true :=
  nameMatches_iff_sameName intl name b hb

/-- creating an existing name fails and changes nothing -/
theorem C02_create_existing_changes_nothing (c : Cfg) (v : Nat) (dir : Blk) (name : Bytes)
    (chain : List (Nat × Blk)) (s : St)
    (hf : s.faultAt = none)
    (hch : ChainOn c s.disk v (dir.hash (hashName (useIntl (c.vol v).dosType) name)) chain)
    (hne : chain ≠ []) (hlen : chain.length ≤ (c.vol v).lastBlock - (c.vol v).firstBlock + 1)
    (hex : ∃ e ∈ chain, nameMatches (useIntl (c.vol v).dosType) name e.2) :
    Post (fun _ => False) c (createEntry v dir name) s (fun r s' =>
      r = (none, dir) ∧ s'.disk = s.disk ∧ s'.mem = s.mem ∧ writesOf s'.trace = writesOf s.trace) :=
  createEntry_duplicate_refused c v dir name chain s hf hch hne hlen hex

end Adf.C02
