/-
  C02 — Namespace fidelity.
  What is proved on the model (for every chain layout on the disk, every position of the entry in its chain, every
  name and case variant, both case-folding tables):
   * lookup refines the abstract map "first entry of the slot's chain whose name is `sameName`": the block returned
     by `adfNameToEntryBlk` is the first match, wherever it sits (head, middle, tail); no match ⇒ not found, and the
     tail of the chain is reported for linking;
   * the comparison is the equivalence relation of C15, and two equal names always live in the same slot (C15), so a
     name has at most one reachable entry per directory as long as creation refuses duplicates — which it does:
   * `adfCreateEntry` with a name that already exists returns failure having written nothing, with the bitmap and all
     other library memory untouched (first of the "failed calls change nothing" cases; it is the kernel shared by
     create-file, create-directory and rename's destination).
   * removing or renaming a name that is not there, removing a non-empty directory or an unsupported entry, renaming or
     moving onto an existing name: each fails and leaves disk, library memory (bitmap, free count) and write log as they
     were; and the chain hypotheses of all these theorems are met by states the library's own block writer produces.
   * closing / flushing a write handle cannot unlink the entries chained behind the file: the header sector written by
     `adfFileFlush` carries the chain link, parent and protection words of the sector as it is on the disk, whatever the
     (possibly stale) copy in the handle says (the defect repaired by 5ae3d82), for every disk, handle and fault schedule.
   * SUCCESS path, first step of the tree refinement: on a healthy device, when `adfCreateFile` has linked a new entry into
     an empty hash slot and written its header, the directory on the disk is valid, its slot holds a one-entry chain, the
     entry matches the requested name (the name bytes written are the name bytes read back, proved at byte level), and the
     library's lookup of that name returns the new block (`C02_created_file_is_linked`, `C02_created_file_is_found`);
     and the second case, a NON-EMPTY chain: the last entry is rewritten with only its link changed, the new entry follows
     it, every other member and the directory are untouched, and the lookup walks past them to the new block
     (`C02_created_file_is_appended`, `C02_appended_file_is_found`).
   * SUCCESS path of removal (its link step): removing the head of a chain leaves the directory valid with the slot
     starting the chain of the remaining entries; removing an inner or last member rewrites the predecessor with only its
     link changed; in both cases every other member and (inner case) the directory are untouched
     (`C02_removed_head_is_unlinked`, `C02_removed_inner_is_unlinked`); with `C02_not_found` the removed name is then not
     found when no remaining entry carries it, and with `C02_first_match` every remaining entry still is.
  Everything else of C02 — the full tree equality over histories, successful delete/rename/move, moving a directory into
  its own subtree, the DIRCACHE variants, free block counts — is decided on the real code by the history checks against the reference tree model
  (tools/spec.py) and the independent decoder, with the model tied trace-exactly.  (MANIFEST: partial.)
-/
import AdfProofs.NamespaceLemmas
import AdfProofs.FlushLemmas
import AdfProofs.CreateFound
import AdfProofs.CreateAppend
import AdfProofs.RemoveUnlink
import AdfProofs.SuccessReach
import AdfProofs.CreateDirFound
import AdfProofs.RefusalLemmas
import AdfProofs.WriteReadLemmas
import AdfProps.C15
import AdfProofs.UndelLinked
namespace Adf.C02
open Adf

/-- lookup over any chain on a healthy device equals the reference lookup -/
theorem C02_lookup_refines (c : Cfg) (v : Nat) (intl : Bool) (name : Bytes) (chain : List (Nat × Blk))
    (fuel n upd : Nat) (last : Blk) (s : St)
    (hne : chain ≠ []) (hlen : chain.length ≤ fuel) (hf : s.faultAt = none) (hch : ChainOn c s.disk v n chain) :
    Post (fun _ => False) c (nameToEntryBlkLoop v intl name fuel n upd) s (fun r s' =>
      r = lookupSpec intl name chain upd last ∧ s'.disk = s.disk ∧ s'.faultAt = none ∧ s'.mem = s.mem ∧
      writesOf s'.trace = writesOf s.trace) :=
  nameToEntryBlkLoop_spec c v intl name chain fuel n upd last s hne hlen hf hch

/-- the reference lookup returns the first match, with the block preceding it as the update point -/
theorem C02_first_match (intl : Bool) (name : Bytes) (pre : List (Nat × Blk)) (n : Nat) (b : Blk)
    (post : List (Nat × Blk)) (upd : Nat) (last : Blk)
    (hpre : ∀ e ∈ pre, ¬ nameMatches intl name e.2) (hm : nameMatches intl name b) :
    lookupSpec intl name (pre ++ (n, b) :: post) upd last = (some n, b, (pre.getLast?.map (·.1)).getD upd) :=
  lookupSpec_first_match intl name pre n b post upd last hpre hm

/-- … and "not found" exactly when no entry of the chain matches -/
theorem C02_not_found (intl : Bool) (name : Bytes) (chain : List (Nat × Blk)) (upd : Nat) (last : Blk)
    (hne : chain ≠ []) (hno : ∀ e ∈ chain, ¬ nameMatches intl name e.2) :
    (lookupSpec intl name chain upd last).1 = none := by
  rw [lookupSpec_none intl name chain upd last hne hno]

/-- the comparison used along the chain is C15's `sameName` on the stored name -/
theorem C02_comparison_is_sameName (intl : Bool) (name : Bytes) (b : Blk) (hb : b.nameLen ≤ 30) :
    nameMatches intl name b ↔ sameName intl name (b.bytes O_name b.nameLen) = true :=
  nameMatches_iff_sameName intl name b hb

/-- creating an existing name fails and changes nothing -/
theorem C02_create_existing_changes_nothing (c : Cfg) (v : Nat) (dir : Blk) (name : Bytes)
    (chain : List (Nat × Blk)) (s : St)
    (hf : s.faultAt = none)
    (hch : ChainOn c s.disk v (dir.hash (hashName (useIntl (c.vol v).dosType) name)) chain)
    (hne : chain ≠ []) (hlen : chain.length ≤ (c.vol v).lastBlock - (c.vol v).firstBlock + 1)
    (hex : ∃ e ∈ chain, nameMatches (useIntl (c.vol v).dosType) name e.2) :
    Post (fun _ => False) c (createEntry v dir name) s (fun r s' =>
      r = (none, dir) ∧ s'.disk = s.disk ∧ s'.mem = s.mem ∧ writesOf s'.trace = writesOf s.trace) :=
  createEntry_duplicate_refused c v dir name chain s hf hch hne hlen hex

/-- what a refused call leaves behind: the disk, the library memory (bitmap included) and the write log are as before -/
theorem C02_remove_missing_changes_nothing (c : Cfg) (v pSect : Nat) (parent : Blk) (name : Bytes)
    (chain : List (Nat × Blk)) (s : St)
    (hf : s.faultAt = none) (hpar : EntryAt c s.disk v pSect parent)
    (hch : ChainOn c s.disk v (parent.hash (hashName (useIntl (c.vol v).dosType) name)) chain)
    (hlen : chain.length ≤ (c.vol v).lastBlock - (c.vol v).firstBlock + 1)
    (hno : ∀ e ∈ chain, ¬ nameMatches (useIntl (c.vol v).dosType) name e.2) :
    Post (fun _ => False) c (removeEntry v pSect name) s (fun rc s' => rc = rcError ∧ Untouched s s') :=
  removeEntry_missing_refused c v pSect parent name chain s hf hpar hch hlen hno

/-- deleting a non-empty directory (or an entry that is neither file nor directory) fails and changes nothing,
    wherever the entry sits in its chain -/
theorem C02_remove_nonempty_changes_nothing (c : Cfg) (v pSect : Nat) (parent : Blk) (name : Bytes)
    (pre : List (Nat × Blk)) (n : Nat) (b : Blk) (post : List (Nat × Blk)) (s : St)
    (hf : s.faultAt = none) (hpar : EntryAt c s.disk v pSect parent)
    (hch : ChainOn c s.disk v (parent.hash (hashName (useIntl (c.vol v).dosType) name)) (pre ++ (n, b) :: post))
    (hlen : (pre ++ (n, b) :: post).length ≤ (c.vol v).lastBlock - (c.vol v).firstBlock + 1)
    (hpre : ∀ e ∈ pre, ¬ nameMatches (useIntl (c.vol v).dosType) name e.2)
    (hm : nameMatches (useIntl (c.vol v).dosType) name b)
    (hbad : (b.secType = ST_DIR ∧ isDirEmpty b = false) ∨ (b.secType ≠ ST_FILE ∧ b.secType ≠ ST_DIR)) :
    Post (fun _ => False) c (removeEntry v pSect name) s (fun rc s' => rc = rcError ∧ Untouched s s') :=
  removeEntry_nonempty_refused c v pSect parent name pre n b post s hf hpar hch hlen hpre hm hbad

/-- renaming a missing source fails and changes nothing -/
theorem C02_rename_missing_changes_nothing (c : Cfg) (v pSect nPSect : Nat) (parent : Blk) (oldName newName : Bytes)
    (chain : List (Nat × Blk)) (s : St)
    (hdiff : ¬ (pSect = nPSect ∧ oldName = newName))
    (hf : s.faultAt = none) (hpar : EntryAt c s.disk v pSect parent)
    (hch : ChainOn c s.disk v (parent.hash (hashName (useIntl (c.vol v).dosType) oldName)) chain)
    (hlen : chain.length ≤ (c.vol v).lastBlock - (c.vol v).firstBlock + 1)
    (hno : ∀ e ∈ chain, ¬ nameMatches (useIntl (c.vol v).dosType) oldName e.2) :
    Post (fun _ => False) c (renameEntry v pSect oldName nPSect newName) s (fun rc s' => rc = rcError ∧ Untouched s s') :=
  renameEntry_missing_refused c v pSect nPSect parent oldName newName chain s hdiff hf hpar hch hlen hno

/-- renaming / moving onto a name that already exists in the destination directory fails and changes nothing — the
    source entry stays where it was (the original code unlinked it first and lost it) -/
theorem C02_rename_onto_existing_changes_nothing (c : Cfg) (v pSect nPSect : Nat) (parent nParent : Blk)
    (oldName newName : Bytes) (pre : List (Nat × Blk)) (n : Nat) (b : Blk) (post : List (Nat × Blk))
    (chain2 : List (Nat × Blk)) (s : St)
    (hdiff : ¬ (pSect = nPSect ∧ oldName = newName))
    (hnc : isDIRCACHE (c.vol v).dosType = false)
    (hf : s.faultAt = none) (hpar : EntryAt c s.disk v pSect parent) (hnpar : EntryAt c s.disk v nPSect nParent)
    (hch : ChainOn c s.disk v (parent.hash (hashName (useIntl (c.vol v).dosType) oldName)) (pre ++ (n, b) :: post))
    (hlen : (pre ++ (n, b) :: post).length ≤ (c.vol v).lastBlock - (c.vol v).firstBlock + 1)
    (hpre : ∀ e ∈ pre, ¬ nameMatches (useIntl (c.vol v).dosType) oldName e.2)
    (hm : nameMatches (useIntl (c.vol v).dosType) oldName b)
    (hch2 : ChainOn c s.disk v (nParent.hash (hashName (useIntl (c.vol v).dosType) newName)) chain2)
    (hlen2 : chain2.length ≤ (c.vol v).lastBlock - (c.vol v).firstBlock + 1)
    (hex : ∃ e ∈ chain2, e.1 ≠ n ∧ nameMatches (useIntl (c.vol v).dosType) newName e.2) :
    Post AnyFault c (renameEntry v pSect oldName nPSect newName) s (fun rc s' => rc = rcError ∧ Untouched s s') :=
  renameEntry_onto_existing_refused c v pSect nPSect parent nParent oldName newName pre n b post chain2 s
    hdiff hnc hf hpar hnpar hch hlen hpre hm hch2 hlen2 hex

/-- non-vacuity of all the chain hypotheses above: a two-entry chain is produced by the library's own block writer -/
theorem C02_chain_hypotheses_reachable (c : Cfg) (v n1 n2 : Nat) (e1 e2 : Blk) (s : St)
    (hf : s.faultAt = none) (hr1 : Readable c v n1) (hr2 : Readable c v n2) (hrw : (c.vol v).readOnly = false)
    (hne : vsect c v n1 ≠ vsect c v n2) (h1 : n1 ≠ 0) (h2 : n2 ≠ 0)
    (hwf1 : BlkWF e1) (hwf2 : BlkWF e2) (ht1 : e1.w F_type = T_HEADER) (ht2 : e2.w F_type = T_HEADER)
    (hl1 : e1.w F_nextSameHash = n2) (hl2 : e2.w F_nextSameHash = 0) :
    ∃ s', run c (do let _ ← writeEntryBlock v n2 e2; writeEntryBlock v n1 e1) s = (.ok rcOK, s') ∧
          ChainOn c s'.disk v n1 [(n1, withSum e1 F_checkSum), (n2, withSum e2 F_checkSum)] :=
  two_entry_chain_reachable c v n1 n2 e1 e2 s hf hr1 hr2 hrw hne h1 h2 hwf1 hwf2 ht1 ht2 hl1 hl2

/-- **Flushing a write handle keeps the hash-chain link that is on the disk.**  For every handle state (in particular a
    header copy taken before other entries were chained behind the file), every disk content and every fault schedule, the
    header part of `adfFileFlush` writes nothing or exactly the file's header sector, and the bytes it writes decode to
    `nextSameHash`, `parent` and `access` words equal to those of that sector before the write. -/
theorem C02_flush_keeps_chain_link (c : Cfg) (h : FileH) (s : St) (hwf : BlkWF h.hdr) :
    Post AnyFault c (fileFlushHdr h) s (fun _ s' =>
      writesOf s'.trace = writesOf s.trace ∨
      ∃ data st, writesOf s'.trace = Ev.wr (some h.vol) (vsect c h.vol (h.hdr.w F_headerKey)) 512 data st :: writesOf s.trace ∧
        linkOfSector data = linkOfSector ((s.sector (vsect c h.vol (h.hdr.w F_headerKey))).take 512)) :=
  fileFlushHdr_keeps_link c h s hwf

/-- the hypothesis is met by every header the library decodes from a sector -/
example (bytes : Bytes) : BlkWF (blkOfBytes bytes) := blkOfBytes_wf bytes

/-- **A created file is linked under its name** (success path).  Healthy device, writable volume without directory cache;
    `parent` is the valid directory block stored at `nParent` (its self pointer — or the root position — names that sector),
    the hash slot of `name` in it is empty, and every block the bitmap has free is a block of the volume other than the
    directory.  Whenever the first half of `adfCreateFile` (link + header write) succeeds, the disk holds the directory,
    valid, with the slot pointing to a block `b`, and at `b` a valid entry block with link 0 that matches `name`. -/
theorem C02_created_file_is_linked (c : Cfg) (v nParent : Nat) (name : Bytes) (parent : Blk) (s : St)
    (hnc : isDIRCACHE (c.vol v).dosType = false) (hf : s.faultAt = none) (hrw : (c.vol v).readOnly = false)
    (hpar : EntryAt c s.disk v nParent parent) (hkey : dirKey (c.vol v) parent = nParent)
    (hslot : parent.hash (hashName (useIntl (c.vol v).dosType) name) = 0)
    (hsmall : ∀ k, bmIsFree (s.mem.vol v).bitmapTable k = true → k < 4294967296)
    (hvol : ∀ k, bmIsFree (s.mem.vol v).bitmapTable k = true → 2 ≤ k → Readable c v k ∧ vsect c v k ≠ vsect c v nParent) :
    Post AnyFault c (createFileLink v nParent name) s (fun r s' => r.2.2.isSome = true →
      ∃ b par' hdr, EntryAt c s'.disk v nParent par' ∧
        ChainOn c s'.disk v (par'.hash (hashName (useIntl (c.vol v).dosType) name)) [(b, hdr)] ∧
        nameMatches (useIntl (c.vol v).dosType) name hdr ∧ s'.faultAt = none) :=
  createFileLink_establishes c v nParent name parent s hnc hf hrw hpar hkey hslot hsmall hvol

/-- … and in such a state the library's own lookup of the name returns that block -/
theorem C02_created_file_is_found (c : Cfg) (v : Nat) (par' : Blk) (name : Bytes) (b : Nat) (hdr : Blk) (s : St)
    (hf : s.faultAt = none)
    (hch : ChainOn c s.disk v (par'.hash (hashName (useIntl (c.vol v).dosType) name)) [(b, hdr)])
    (hm : nameMatches (useIntl (c.vol v).dosType) name hdr) :
    Post (fun _ => False) c (nameToEntryBlk v par' name) s (fun r _ => r.1 = some b ∧ r.2.1 = hdr) :=
  created_entry_found c v par' name b hdr s hf hch hm

/-- the byte-level fact underneath: a block that agrees with the freshly built entry on the name area is matched by a
    lookup of the name — for every name (any bytes, any length; 30 significant) and both folding tables -/
theorem C02_name_written_is_name_matched (intl : Bool) (name : Bytes) (b : Blk) (h : SameNameArea (newEntryBase name) b) :
    nameMatches intl name b :=
  newEntry_nameMatches intl name b h

/-- **A file created at the end of a non-empty chain** (success path, second case): the chain `pre ++ [(m, last)]` of the
    name's slot holds no entry of that name and its last entry is stored where its self pointer says; sectors of chain
    members, directory and free blocks are pairwise different where it matters.  Whenever link + header write succeed, the
    disk holds `pre ++ [(m, last'), (b, hdr)]`: `last'` is `last` with only its link (and checksum / writer fix-ups) changed,
    `hdr` is valid and matches the name; the directory block and the other members are as they were. -/
theorem C02_created_file_is_appended (c : Cfg) (v nParent : Nat) (name : Bytes) (parent : Blk) (s : St)
    (pre : List (Nat × Blk)) (m : Nat) (last : Blk)
    (hnc : isDIRCACHE (c.vol v).dosType = false) (hf : s.faultAt = none) (hrw : (c.vol v).readOnly = false)
    (hpar : EntryAt c s.disk v nParent parent)
    (hch : ChainOn c s.disk v (parent.hash (hashName (useIntl (c.vol v).dosType) name)) (pre ++ [(m, last)]))
    (hlen : (pre ++ [(m, last)]).length ≤ (c.vol v).lastBlock - (c.vol v).firstBlock + 1)
    (hno : ∀ e ∈ pre ++ [(m, last)], ¬ nameMatches (useIntl (c.vol v).dosType) name e.2)
    (hself : last.w F_headerKey = m)
    (hsmall : ∀ k, bmIsFree (s.mem.vol v).bitmapTable k = true → k < 4294967296)
    (hvol : ∀ k, bmIsFree (s.mem.vol v).bitmapTable k = true → 2 ≤ k → Readable c v k ∧ vsect c v k ≠ vsect c v nParent ∧
      ∀ e ∈ pre ++ [(m, last)], vsect c v k ≠ vsect c v e.1)
    (hdist : ∀ e ∈ pre, vsect c v m ≠ vsect c v e.1) (hparm : vsect c v m ≠ vsect c v nParent) :
    Post AnyFault c (createFileLink v nParent name) s (fun r s' => r.2.2.isSome = true →
      ∃ b last' hdr, EntryAt c s'.disk v nParent parent ∧
        ChainOn c s'.disk v (parent.hash (hashName (useIntl (c.vol v).dosType) name)) (pre ++ [(m, last'), (b, hdr)]) ∧
        SameNameArea last last' ∧ nameMatches (useIntl (c.vol v).dosType) name hdr ∧ s'.faultAt = none) :=
  createFileLink_appends c v nParent name parent s pre m last hnc hf hrw hpar hch hlen hno hself hsmall hvol hdist hparm

/-- … and the lookup returns the appended entry -/
theorem C02_appended_file_is_found (c : Cfg) (v : Nat) (par : Blk) (name : Bytes) (pre : List (Nat × Blk))
    (m b : Nat) (last last' hdr : Blk) (s : St) (hf : s.faultAt = none)
    (hch : ChainOn c s.disk v (par.hash (hashName (useIntl (c.vol v).dosType) name)) (pre ++ [(m, last'), (b, hdr)]))
    (hlen : (pre ++ [(m, last'), (b, hdr)]).length ≤ (c.vol v).lastBlock - (c.vol v).firstBlock + 1)
    (hno : ∀ e ∈ pre ++ [(m, last)], ¬ nameMatches (useIntl (c.vol v).dosType) name e.2)
    (hS : SameNameArea last last') (hm : nameMatches (useIntl (c.vol v).dosType) name hdr) :
    Post (fun _ => False) c (nameToEntryBlk v par name) s (fun r _ => r.1 = some b ∧ r.2.1 = hdr) :=
  appended_entry_found c v par name pre m b last last' hdr s hf hch hlen hno hS hm

/-- **Removing the head of a hash chain** (link step of `adfRemoveEntry`, healthy device): the directory on the disk is
    valid, its slot starts the chain of the remaining entries, which are untouched -/
theorem C02_removed_head_is_unlinked (c : Cfg) (v pSect : Nat) (parent : Blk) (name : Bytes) (n : Nat) (b : Blk)
    (post : List (Nat × Blk)) (s : St)
    (hf : s.faultAt = none) (hrw : (c.vol v).readOnly = false) (hpar : EntryAt c s.disk v pSect parent)
    (hch : ChainOn c s.disk v (parent.hash (hashName (useIntl (c.vol v).dosType) name)) ((n, b) :: post))
    (hlen : ((n, b) :: post).length ≤ (c.vol v).lastBlock - (c.vol v).firstBlock + 1)
    (hm : nameMatches (useIntl (c.vol v).dosType) name b)
    (hdist : ∀ e ∈ post, vsect c v pSect ≠ vsect c v e.1) :
    Post AnyFault c (removeEntryUnlink v pSect name) s (fun r s' => r.2.isSome = true →
      ∃ parent', EntryAt c s'.disk v pSect parent' ∧
        ChainOn c s'.disk v (parent'.hash (hashName (useIntl (c.vol v).dosType) name)) post ∧ s'.faultAt = none) :=
  removeEntryUnlink_head c v pSect parent name n b post s hf hrw hpar hch hlen hm hdist

/-- **Removing an inner or last member of a hash chain**: the predecessor is rewritten with only its link changed (its name
    area in particular is untouched), the chain skips the removed entry, directory and other members stay -/
theorem C02_removed_inner_is_unlinked (c : Cfg) (v pSect : Nat) (parent : Blk) (name : Bytes) (pre : List (Nat × Blk))
    (p : Nat) (prev : Blk) (n : Nat) (b : Blk) (post : List (Nat × Blk)) (s : St)
    (hf : s.faultAt = none) (hrw : (c.vol v).readOnly = false) (hpar : EntryAt c s.disk v pSect parent)
    (hch : ChainOn c s.disk v (parent.hash (hashName (useIntl (c.vol v).dosType) name)) (pre ++ (p, prev) :: (n, b) :: post))
    (hlen : (pre ++ (p, prev) :: (n, b) :: post).length ≤ (c.vol v).lastBlock - (c.vol v).firstBlock + 1)
    (hpre : ∀ e ∈ pre ++ [(p, prev)], ¬ nameMatches (useIntl (c.vol v).dosType) name e.2)
    (hm : nameMatches (useIntl (c.vol v).dosType) name b)
    (hdist : ∀ e ∈ pre ++ post, vsect c v p ≠ vsect c v e.1) (hpp : vsect c v p ≠ vsect c v pSect) :
    Post AnyFault c (removeEntryUnlink v pSect name) s (fun r s' => r.2.isSome = true →
      ∃ prev', EntryAt c s'.disk v pSect parent ∧
        ChainOn c s'.disk v (parent.hash (hashName (useIntl (c.vol v).dosType) name)) (pre ++ (p, prev') :: post) ∧
        SameNameArea prev prev' ∧ s'.faultAt = none) :=
  removeEntryUnlink_inner c v pSect parent name pre p prev n b post s hf hrw hpar hch hlen hpre hm hdist hpp

/-- non-vacuity of `C02_created_file_is_linked`: on a volume of sane geometry (`GeomOK`: mounted, inside the device, no
    32-bit wrap) whose bitmap marks free only blocks of the volume other than the directory, a directory block with the
    name's slot empty, written by the library's own block writer to its own position, yields a state that meets every
    hypothesis of that theorem (healthy, valid directory at its self pointer, empty slot, free blocks readable and distinct
    from the directory) -/
theorem C02_success_hypotheses_reachable (c : Cfg) (v nParent : Nat) (name : Bytes) (dir0 : Blk) (s0 : St)
    (g : GeomOK c v) (hrw : (c.vol v).readOnly = false) (hf : s0.faultAt = none)
    (hn : nParent ≤ (c.vol v).lastBlock - (c.vol v).firstBlock)
    (hB : ∀ k, bmIsFree (s0.mem.vol v).bitmapTable k = true → k ≤ (c.vol v).lastBlock - (c.vol v).firstBlock ∧ k ≠ nParent)
    (hwf : BlkWF dir0) (hty : dir0.w F_type = T_HEADER) (hst : dir0.secType = ST_DIR) (hkey : dir0.w F_headerKey = nParent)
    (hslot : dir0.hash (hashName (useIntl (c.vol v).dosType) name) = 0) :
    ∃ s, run c (writeEntryBlock v nParent dir0) s0 = (.ok rcOK, s) ∧ s.faultAt = none ∧
      EntryAt c s.disk v nParent (withSum dir0 F_checkSum) ∧ dirKey (c.vol v) (withSum dir0 F_checkSum) = nParent ∧
      (withSum dir0 F_checkSum).hash (hashName (useIntl (c.vol v).dosType) name) = 0 ∧
      (∀ k, bmIsFree (s.mem.vol v).bitmapTable k = true → k < 4294967296) ∧
      (∀ k, bmIsFree (s.mem.vol v).bitmapTable k = true → 2 ≤ k → Readable c v k ∧ vsect c v k ≠ vsect c v nParent) :=
  created_file_hypotheses_reachable c v nParent name dir0 s0 g hrw hf hn hB hwf hty hst hkey hslot

/-- a block meeting the conditions on `dir0` above exists: a zeroed block with type, self pointer and secondary type set -/
example (n : Nat) (hn : n < 4294967296) (i : Nat) (hi : i < 72) :
    let d := ((zeroBlk.setW F_type T_HEADER).setW F_headerKey n).setW F_secType ST_DIR
    BlkWF d ∧ d.w F_type = T_HEADER ∧ d.secType = ST_DIR ∧ d.w F_headerKey = n ∧ d.hash i = 0 := by
  simp only
  have hz := zeroBlk_wf
  refine ⟨setW_wf _ _ _ (setW_wf _ _ _ (setW_wf _ _ _ hz)), ?_, ?_, ?_, ?_⟩
  · rw [Blk.w_setW_ne _ _ _ _ (by decide), Blk.w_setW_ne _ _ _ _ (by decide)]
    exact Blk.w_setW_same _ _ _ (by rw [hz.1]; decide) (by decide)
  · unfold Blk.secType
    exact Blk.w_setW_same _ _ _ (by rw [Blk.setW_length, Blk.setW_length, hz.1]; decide) (by decide)
  · rw [Blk.w_setW_ne _ _ _ _ (by decide)]
    exact Blk.w_setW_same _ _ _ (by rw [Blk.setW_length, hz.1]; decide) hn
  · rw [hash_frame _ _ _ _ (Or.inr (by decide)) hi, hash_frame _ _ _ _ (Or.inl (by decide)) hi, hash_frame _ _ _ _ (Or.inl (by decide)) hi]
    unfold Blk.hash Blk.w zeroBlk F_table
    rw [List.getD_eq_getElem?_getD, List.getElem?_replicate]
    split <;> rfl

/-- **A created directory is linked under its name** (same statement as for files, for `adfCreateDir`'s link + block
    write; the entry found is a directory) -/
theorem C02_created_dir_is_linked (c : Cfg) (v nParent : Nat) (name : Bytes) (parent : Blk) (s : St)
    (hnc : isDIRCACHE (c.vol v).dosType = false) (hf : s.faultAt = none) (hrw : (c.vol v).readOnly = false)
    (hpar : EntryAt c s.disk v nParent parent) (hkey : dirKey (c.vol v) parent = nParent)
    (hslot : parent.hash (hashName (useIntl (c.vol v).dosType) name) = 0)
    (hsmall : ∀ k, bmIsFree (s.mem.vol v).bitmapTable k = true → k < 4294967296)
    (hvol : ∀ k, bmIsFree (s.mem.vol v).bitmapTable k = true → 2 ≤ k → Readable c v k ∧ vsect c v k ≠ vsect c v nParent) :
    Post AnyFault c (createDirLink v nParent name) s (fun r s' => r.2 = true →
      ∃ b par' hdr, EntryAt c s'.disk v nParent par' ∧
        ChainOn c s'.disk v (par'.hash (hashName (useIntl (c.vol v).dosType) name)) [(b, hdr)] ∧
        nameMatches (useIntl (c.vol v).dosType) name hdr ∧ hdr.secType = ST_DIR ∧ s'.faultAt = none) :=
  createDirLink_establishes c v nParent name parent s hnc hf hrw hpar hkey hslot hsmall hvol

/-- **a file restored by `adfUndelFile` is in its parent again** (success path of undelete; healthy writable device, valid
    parent directory at its own sector `pSect`, the slot of the entry's name empty, the entry's stale link already 0, for
    every block list, volume state and volume type): when the link step reports success, the disk differs from the disk
    before the call in the parent's sector only; that sector holds a valid directory block whose slot for the entry's name
    points to the entry's block; and the entry's own block — still on the disk from before the deletion — is what it was,
    so the lookup of C02_created_file_is_found reaches it. -/
theorem C02_undeleted_file_is_linked (c : Cfg) (v pSect : Nat) (entry parent e0 : Blk) (data exts : List Nat) (s : St)
    (hf : s.faultAt = none) (hrw : (c.vol v).readOnly = false)
    (hpar : EntryAt c s.disk v pSect parent) (hkey : dirKey (c.vol v) parent = pSect)
    (hslot : parent.hash (hashName (useIntl (c.vol v).dosType) (salvName entry)) = 0)
    (hn : entry.w F_nextSameHash = 0) (ht32 : entry.w F_headerKey < 4294967296)
    (hown : EntryAt c s.disk v (entry.w F_headerKey) e0) (hne : vsect c v (entry.w F_headerKey) ≠ vsect c v pSect) :
    Post AnyFault c (undelFileLink v pSect entry data exts) s (fun r s' => r.2.isSome = true →
      s'.faultAt = none ∧ EntryAt c s'.disk v (entry.w F_headerKey) e0 ∧
      ∃ par', EntryAt c s'.disk v pSect par' ∧
        par'.hash (hashName (useIntl (c.vol v).dosType) (salvName entry)) = entry.w F_headerKey) := by
  refine Post.mono _ _ _ _ _ (undelFileLink_links c v pSect entry parent data exts s hf hrw hpar hkey hslot hn ht32) ?_
  intro r s' h hsome
  obtain ⟨hf', x, par', hd, hE, hh⟩ := h hsome
  refine ⟨hf', ?_, par', hE, hh⟩
  obtain ⟨o1, o2, o3, o4⟩ := hown
  refine ⟨o1, ?_, o3, o4⟩
  rw [hd, Std.HashMap.getD_insert]
  rw [if_neg (by simpa using (Ne.symm hne))]
  exact o2

end Adf.C02
