/-
  C16 — Timestamps: calendar <-> Amiga day count conversions are exact inverses.
  Property theorems only; helper lemmas are in AdfProofs/DateLemmas.lean.
  Model: AdfModel/Util.lean (C-mirror of adfDays2Date / adfTime2AmigaTime / adfIsLeap).
  Spec:  AdfSpec/Calendar.lean (proleptic Gregorian calendar, independent of the code).
-/
import AdfProofs.DateLemmas
namespace Adf.C16
open Adf Spec

/-- `adfDays2Date` never indexes past `jm[11]` and always produces a date (every day count ≥ 0). -/
theorem C16_days2Date_total (n : Nat) : (days2Date n).isSome := by
  unfold days2Date
  obtain ⟨k, r, he, -, hr⟩ := d2dYear_spec 1978 n
  rw [he]
  obtain ⟨m', d, hm, -⟩ := d2dMonth_spec (isLeap (1978+k)) 12 1 r (by omega) (by omega)
    (by rw [sumMonths_12, ← yearLen_eq]; simpa [sumMonths] using hr)
  simp [hm]

/-- calendar → days → calendar is the identity, for every valid date from 1978 on, no upper bound. -/
theorem C16_roundtrip (y m d h mi s : Nat) (hy : 1978 ≤ y) (hv : validDate y m d) :
    days2Date (time2Amiga y m d h mi s).1 = some (y, m, d) := by
  obtain ⟨hm1, hm12, hd1, hdl⟩ := hv
  obtain ⟨n, rfl⟩ : ∃ n, y = 1978 + n := ⟨y - 1978, by omega⟩
  -- the day number, decomposed as years + (months + day-1)
  have hmon : (if m > 1 then sumMonths (decide (m - 1 > 1) && isLeap (1978+n)) (m-1) else 0)
      = sumMonths (isLeap (1978+n)) (m-1) := by
    have : m = 1 ∨ m = 2 ∨ 3 ≤ m := by omega
    rcases this with h | h | h
    · subst h; rfl
    · subst h; cases isLeap (1978+n) <;> rfl
    · have h1 : m > 1 := by omega
      have h2 : m - 1 > 1 := by omega
      simp [h1, h2]
  have hjm : d - 1 < jm (isLeap (1978+n)) m := by rw [jm_monthLen]; omega
  have hlt : sumMonths (isLeap (1978+n)) (m-1) + (d-1) < yearLen (1978+n) := by
    have hs : sumMonths (isLeap (1978+n)) m ≤ sumMonths (isLeap (1978+n)) 12 := by
      have : m = 1 ∨ m = 2 ∨ m = 3 ∨ m = 4 ∨ m = 5 ∨ m = 6 ∨ m = 7 ∨ m = 8 ∨ m = 9 ∨ m = 10 ∨ m = 11 ∨ m = 12 := by omega
      rcases this with h|h|h|h|h|h|h|h|h|h|h|h <;> subst h <;> cases isLeap (1978+n) <;> decide
    have hs2 : sumMonths (isLeap (1978+n)) m = sumMonths (isLeap (1978+n)) (m-1) + jm (isLeap (1978+n)) m := by
      obtain ⟨k, rfl⟩ : ∃ k, m = k+1 := ⟨m-1, by omega⟩
      rfl
    rw [yearLen_eq, ← sumMonths_12]; omega
  have hday : (time2Amiga (1978+n) m d h mi s).1
      = yearsSpan 1978 n + (sumMonths (isLeap (1978+n)) (m-1) + (d-1)) := by
    simp only [time2Amiga, Nat.add_sub_cancel_left, hmon, sumYears_eq]; omega
  rw [hday]
  unfold days2Date
  rw [d2dYear_span 1978 n _ hlt]
  obtain ⟨m', d', he, h1, h2, h3, h4⟩ := d2dMonth_spec (isLeap (1978+n)) 12 1
    (sumMonths (isLeap (1978+n)) (m-1) + (d-1)) (by omega) (by omega)
    (by rw [sumMonths_12, ← yearLen_eq]; simpa [sumMonths] using hlt)
  -- uniqueness of the month decomposition
  have huniq : m' = m ∧ d' = d - 1 := by
    simp only [Nat.sub_self, sumMonths, Nat.zero_add] at h3
    have key : ∀ a b : Nat, a ≤ 12 → b ≤ 12 → a < b →
        sumMonths (isLeap (1978+n)) a + jm (isLeap (1978+n)) (a+1) ≤ sumMonths (isLeap (1978+n)) b := by
      intro a b ha hb hab
      have : sumMonths (isLeap (1978+n)) (a+1) ≤ sumMonths (isLeap (1978+n)) b := by
        have mono : ∀ j, sumMonths (isLeap (1978+n)) (a+1) ≤ sumMonths (isLeap (1978+n)) (a+1+j) := by
          intro j; induction j with
          | zero => exact Nat.le_refl _
          | succ j ih =>
            have e : sumMonths (isLeap (1978+n)) (a+1+(j+1))
                = sumMonths (isLeap (1978+n)) (a+1+j) + jm (isLeap (1978+n)) (a+1+j+1) := rfl
            omega
        have := mono (b - (a+1)); rwa [show a + 1 + (b - (a+1)) = b by omega] at this
      rwa [sumMonths_succ] at this
    by_cases hlt' : m' < m
    · have := key (m'-1) (m-1) (by omega) (by omega) (by omega)
      rw [show m' - 1 + 1 = m' by omega] at this; omega
    · by_cases hgt : m < m'
      · have := key (m-1) (m'-1) (by omega) (by omega) (by omega)
        rw [show m - 1 + 1 = m by omega] at this; omega
      · have : m' = m := by omega
        subst this; exact ⟨rfl, by omega⟩
  simp only [he]
  rw [huniq.1, huniq.2, show d - 1 + 1 = d by omega]

/-- days → calendar → days is the identity, and the calendar date produced is valid. -/
theorem C16_inverse (n y m d h mi s : Nat) (hd : days2Date n = some (y, m, d)) :
    (time2Amiga y m d h mi s).1 = n ∧ validDate y m d ∧ 1978 ≤ y := by
  unfold days2Date at hd
  obtain ⟨k, r, he, hn, hr⟩ := d2dYear_spec 1978 n
  rw [he] at hd
  obtain ⟨m', d', hm, h1, h2, h3, h4⟩ := d2dMonth_spec (isLeap (1978+k)) 12 1 r (by omega) (by omega)
    (by rw [sumMonths_12, ← yearLen_eq]; simpa [sumMonths] using hr)
  simp only [hm, Option.some.injEq, Prod.mk.injEq] at hd
  obtain ⟨rfl, rfl, rfl⟩ := hd
  have hvalid : validDate (1978+k) m' (d'+1) := by
    refine ⟨h1, h2, by omega, ?_⟩
    rw [← jm_monthLen]; omega
  refine ⟨?_, hvalid, by omega⟩
  have hrt := C16_roundtrip (1978+k) m' (d'+1) h mi s (by omega) hvalid
  -- both n and the recomputed day number decode to the same date; use the explicit form
  have hmon : (if m' > 1 then sumMonths (decide (m' - 1 > 1) && isLeap (1978+k)) (m'-1) else 0)
      = sumMonths (isLeap (1978+k)) (m'-1) := by
    have : m' = 1 ∨ m' = 2 ∨ 3 ≤ m' := by omega
    rcases this with h | h | h
    · subst h; rfl
    · subst h; cases isLeap (1978+k) <;> rfl
    · have h1 : m' > 1 := by omega
      have h2 : m' - 1 > 1 := by omega
      simp [h1, h2]
  simp only [time2Amiga, Nat.add_sub_cancel_left, Nat.add_sub_cancel, hmon, sumYears_eq]
  simp only [Nat.sub_self, sumMonths, Nat.zero_add] at h3
  omega

/-- the stored day number is the real (Gregorian) number of days since 1978-01-01. -/
theorem C16_gregorian (y m d h mi s : Nat) (hy : 1978 ≤ y) (hv : validDate y m d) :
    (time2Amiga y m d h mi s).1 + epoch = civil y m d := by
  obtain ⟨hm1, hm12, hd1, hdl⟩ := hv
  obtain ⟨n, rfl⟩ : ∃ n, y = 1978 + n := ⟨y - 1978, by omega⟩
  have hmon : (if m > 1 then sumMonths (decide (m - 1 > 1) && isLeap (1978+n)) (m-1) else 0)
      = sumMonths (isLeap (1978+n)) (m-1) := by
    have : m = 1 ∨ m = 2 ∨ 3 ≤ m := by omega
    rcases this with h | h | h
    · subst h; rfl
    · subst h; cases isLeap (1978+n) <;> rfl
    · have h1 : m > 1 := by omega
      have h2 : m - 1 > 1 := by omega
      simp [h1, h2]
  have hs := sumMonths_monthStart (isLeap (1978+n)) (m-1) (by omega)
  have hb := yearsSpan_daysBeforeYear 1978 n (by omega)
  simp only [time2Amiga, Nat.add_sub_cancel_left, hmon, sumYears_eq, epoch, civil]
  rw [hb, hs, show m - 1 + 1 = m by omega, isLeap_eq_leap]
  have e0 : daysBeforeYear 1978 + monthStart 1 + (if (leap 1978 && decide (1 > 2)) = true then 1 else 0) + (1 - 1)
      = daysBeforeYear 1978 := by decide
  rw [e0]; omega

/-- minutes and ticks: `mins/60`, `mins%60`, `ticks/50` (what listings report) give back h:m:s. -/
theorem C16_time_of_day (y m d h mi s : Nat) (hmi : mi < 60) :
    let t := time2Amiga y m d h mi s
    t.2.1 / 60 = h ∧ t.2.1 % 60 = mi ∧ t.2.2 / 50 = s := by
  simp only [time2Amiga]; omega

/-- non-vacuity: the hypotheses are met by ordinary dates, and the famous failing date of the
    unfixed code (2000-03-01) now maps to day 8095 = 8034 + 31 + 29 + 1. -/
example : validDate 2000 3 1 ∧ (time2Amiga 2000 3 1 12 0 0).1 = 8095 ∧ days2Date 8095 = some (2000, 3, 1) := by
  have h1 : validDate 2000 3 1 := by decide
  have h2 : (time2Amiga 2000 3 1 12 0 0).1 = 8095 := by decide
  refine ⟨h1, h2, ?_⟩
  have := C16_roundtrip 2000 3 1 12 0 0 (by omega) h1
  rwa [h2] at this
example : validDate 2024 2 29 ∧ days2Date (time2Amiga 2024 2 29 0 0 0).1 = some (2024, 2, 29) :=
  ⟨by decide, C16_roundtrip 2024 2 29 0 0 0 (by omega) (by decide)⟩

end Adf.C16
