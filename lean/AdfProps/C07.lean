/-
  C07 — Directory-cache coherence: the record codec and its bounds.
  Model: AdfModel/Cache.lean — `getCacheEntry` (adfGetCacheEntry on the 488-byte record area), `putCacheEntry`
  (adfPutCacheEntry), `cacheEntryLen`, `skipRecords`.
  Theorems: whatever bytes a cache block holds, a successfully parsed record lies entirely inside the 488-byte
  record area, its name is 1..30 and its comment 0..79 bytes long, and parsing always advances (so a block holds
  at most 18 records and the record loops end); and the parser reads back exactly what the writer stored.
  NOT proved (MANIFEST): coherence (cached listing = hash listing) as an invariant of histories; decided on
  explored histories by the independent decoder and the listing comparison.
-/
import AdfProofs.CacheLemmas
namespace Adf.C07
open Adf

/-- what a successful parse tells us: all five guards passed, and the record / next offset are these -/
theorem getCacheEntry_some (ra : Bytes) (ptr : Nat) (e : CacheEntry) (p : Nat)
    (h : getCacheEntry ra ptr = some (e, p)) :
    let nLen := (ra.getD (ptr + 23) 0).toNat
    let cLen := (ra.getD (ptr + 24 + nLen) 0).toNat
    ptr ≤ 462 ∧ 1 ≤ nLen ∧ nLen ≤ 30 ∧ ptr + 24 + nLen < 488 ∧ cLen ≤ 79 ∧ ptr + 24 + nLen + 1 + cLen ≤ 488 ∧
    e.nLen = nLen ∧ e.cLen = cLen ∧ e.name = slice ra (ptr + 24) nLen ∧ e.comm = slice ra (ptr + 24 + nLen + 1) cLen ∧
    p = (if (ptr + 24 + nLen + 1 + cLen) % 2 ≠ 0 then ptr + 24 + nLen + 1 + cLen + 1 else ptr + 24 + nLen + 1 + cLen) := by
  unfold getCacheEntry REC_AREA at h
  simp only at h ⊢
  by_cases c1 : ptr > 488 - 26
  · rw [if_pos c1] at h; cases h
  · rw [if_neg c1] at h
    by_cases c2 : (ra.getD (ptr + 23) 0).toNat < 1 ∨ (ra.getD (ptr + 23) 0).toNat > 30
    · rw [if_pos c2] at h; cases h
    · rw [if_neg c2] at h
      by_cases c3 : ptr + 24 + (ra.getD (ptr + 23) 0).toNat ≥ 488
      · rw [if_pos c3] at h; cases h
      · rw [if_neg c3] at h
        by_cases c4 : (ra.getD (ptr + 24 + (ra.getD (ptr + 23) 0).toNat) 0).toNat > 79
        · rw [if_pos c4] at h; cases h
        · rw [if_neg c4] at h
          by_cases c5 : ptr + 24 + (ra.getD (ptr + 23) 0).toNat + 1 + (ra.getD (ptr + 24 + (ra.getD (ptr + 23) 0).toNat) 0).toNat > 488
          · rw [if_pos c5] at h; cases h
          · rw [if_neg c5] at h
            simp only [Option.some.injEq, Prod.mk.injEq] at h
            obtain ⟨he, hp⟩ := h
            subst he
            refine ⟨by omega, by omega, by omega, by omega, by omega, by omega, rfl, rfl, rfl, rfl, hp.symm⟩

/-- bounds: for EVERY byte string, a parsed record is inside the 488-byte record area and has legal lengths -/
theorem C07_record_in_bounds (ra : Bytes) (ptr : Nat) (e : CacheEntry) (p : Nat)
    (h : getCacheEntry ra ptr = some (e, p)) :
    1 ≤ e.nLen ∧ e.nLen ≤ 30 ∧ e.cLen ≤ 79 ∧ ptr + 24 + e.nLen + 1 + e.cLen ≤ REC_AREA ∧
    e.name.length ≤ e.nLen ∧ e.comm.length ≤ e.cLen ∧ p ≤ REC_AREA + 1 := by
  obtain ⟨h1, h2, h3, h4, h5, h6, hn, hc, hname, hcomm, hp⟩ := getCacheEntry_some ra ptr e p h
  rw [hn, hc, hname, hcomm]
  unfold REC_AREA
  refine ⟨h2, h3, h5, h6, ?_, ?_, ?_⟩
  · simp [slice, List.length_take]; exact Nat.min_le_left _ _
  · simp [slice, List.length_take]; exact Nat.min_le_left _ _
  · rw [hp]; split <;> omega

/-- progress: a successful parse advances by at least 26 bytes, so at most 18 records can be parsed from a block,
    whatever `recordsNb` claims -/
theorem C07_parse_advances (ra : Bytes) (ptr : Nat) (e : CacheEntry) (p : Nat)
    (h : getCacheEntry ra ptr = some (e, p)) : ptr + 26 ≤ p ∧ ptr ≤ 462 := by
  obtain ⟨h1, h2, h3, h4, h5, h6, hn, hc, hname, hcomm, hp⟩ := getCacheEntry_some ra ptr e p h
  refine ⟨?_, h1⟩
  rw [hp]; split <;> omega

theorem C07_at_most_18_records (ra : Bytes) (n : Nat) (hn : 19 ≤ n) : skipRecords ra n 0 = none := by
  -- k records from `off` need off + 26*(k-1) ≤ 462
  have key : ∀ (k off : Nat), 462 < off + 26 * (k - 1) → 1 ≤ k → skipRecords ra k off = none := by
    intro k
    induction k with
    | zero => intro off _ h; omega
    | succ k ih =>
      intro off hgt _
      rw [skipRecords]
      cases hg : getCacheEntry ra off with
      | none => rfl
      | some r =>
        obtain ⟨e, p⟩ := r
        have := C07_parse_advances ra off e p hg
        simp only
        by_cases hk : k = 0
        · subst hk; simp at hgt; omega
        · exact ih p (by simp at hgt ⊢; omega) (by omega)
  exact key n 0 (by omega) (by omega)

/-- the writer's record length is what the parser will step over (even, 26 … 134) -/
theorem C07_len_even (e : CacheEntry) : cacheEntryLen e % 2 = 0 ∧ 25 + e.nLen + e.cLen ≤ cacheEntryLen e ∧
    cacheEntryLen e ≤ 26 + e.nLen + e.cLen := by
  unfold cacheEntryLen
  simp only
  split <;> omega

/-- the record as the writer lays it out behind bytes 0..15 -/
def tailBytes (e : CacheEntry) : Bytes :=
  be16 e.days ++ be16 e.mins ++ be16 e.ticks ++ [UInt8.ofNat e.type, UInt8.ofNat e.nLen] ++ e.name.take e.nLen ++
    [UInt8.ofNat e.cLen] ++ e.comm.take e.cLen

structure RecOK (e : CacheEntry) : Prop where
  n1 : 1 ≤ e.nLen
  n30 : e.nLen ≤ 30
  c79 : e.cLen ≤ 79
  nameLen : e.name.length = e.nLen
  commLen : e.comm.length = e.cLen
  hdr : e.header < 4294967296
  size : e.size < 4294967296
  prot : e.protect < 4294967296
  days : e.days < 65536
  mins : e.mins < 65536
  ticks : e.ticks < 65536
  type : e.type < 256

theorem tailBytes_length (e : CacheEntry) (h : RecOK e) : (tailBytes e).length = 9 + e.nLen + e.cLen := by
  unfold tailBytes
  simp [be16, List.length_take, h.nameLen, h.commLen]
  omega

/-- (round trip) the parser reads back exactly the record the writer stored, and steps over exactly its length -/
theorem C07_roundtrip (ra : Bytes) (ptr : Nat) (e : CacheEntry) (hra : ra.length = 488) (h : RecOK e)
    (hfit : ptr + cacheEntryLen e ≤ 488) (hpe : ptr % 2 = 0) :
    getCacheEntry (putCacheEntry ra ptr e) ptr = some (e, ptr + cacheEntryLen e) := by
  have hlen := C07_len_even e
  have hY := tailBytes_length e h
  -- the three writes
  let X : Bytes := be32 e.header ++ be32 e.size ++ be32 e.protect
  have hX : X.length = 12 := by simp [X, be32]
  let r1 := putAt ra ptr X
  have hr1 : r1.length = 488 := by rw [putAt_length _ _ _ (by omega)]; exact hra
  let r2 := putAt r1 (ptr + 16) (tailBytes e)
  have hr2 : r2.length = 488 := by rw [putAt_length _ _ _ (by omega)]; exact hr1
  -- reads inside the two written regions, on r2
  have inX : ∀ k, k < 12 → r2.getD (ptr + k) 0 = X.getD k 0 := by
    intro k hk
    show (putAt r1 (ptr + 16) (tailBytes e)).getD (ptr + k) 0 = _
    rw [getD_putAt_out _ _ _ _ _ (by omega) (Or.inl (by omega))]
    show (putAt ra ptr X).getD (ptr + k) 0 = _
    rw [getD_putAt_in _ _ _ _ _ (by omega) (by omega) (by omega), Nat.add_sub_cancel_left]
  have inY : ∀ k, k < 9 + e.nLen + e.cLen → r2.getD (ptr + 16 + k) 0 = (tailBytes e).getD k 0 := by
    intro k hk
    show (putAt r1 (ptr + 16) (tailBytes e)).getD (ptr + 16 + k) 0 = _
    rw [getD_putAt_in _ _ _ _ _ (by omega) (by omega) (by omega), Nat.add_sub_cancel_left]
  have slY : ∀ k len, k + len ≤ 9 + e.nLen + e.cLen → slice r2 (ptr + 16 + k) len = ((tailBytes e).drop k).take len := by
    intro k len hk
    exact slice_putAt_in r1 (ptr + 16) (tailBytes e) k len (by omega) (by omega)
  -- the optional pad byte lies behind everything the parser reads
  have hput : putCacheEntry ra ptr e = if (25 + e.nLen + e.cLen) % 2 = 0 then r2 else putAt r2 (ptr + (25 + e.nLen + e.cLen)) [0] := rfl
  -- transfer the facts to the final record area
  have fin_get : ∀ i, i < ptr + 25 + e.nLen + e.cLen → (putCacheEntry ra ptr e).getD i 0 = r2.getD i 0 := by
    intro i hi
    rw [hput]
    split
    · rfl
    · rename_i hodd
      have hfit' : ptr + (25 + e.nLen + e.cLen) + 1 ≤ 488 := by
        unfold cacheEntryLen at hfit; simp only at hfit; rw [if_neg hodd] at hfit; omega
      exact getD_putAt_out _ _ _ _ _ (by simp; omega) (Or.inl (by omega))
  have fin_slice : ∀ a len, a + len ≤ ptr + 25 + e.nLen + e.cLen → slice (putCacheEntry ra ptr e) a len = slice r2 a len := by
    intro a len hal
    rw [hput]
    split
    · rfl
    · rename_i hodd
      have hfit' : ptr + (25 + e.nLen + e.cLen) + 1 ≤ 488 := by
        unfold cacheEntryLen at hfit; simp only at hfit; rw [if_neg hodd] at hfit; omega
      exact slice_putAt_out _ _ _ _ _ (by simp; omega) (by omega)
  -- individual fields
  have g23 : (putCacheEntry ra ptr e).getD (ptr + 23) 0 = UInt8.ofNat e.nLen := by
    rw [fin_get _ (by omega), show ptr + 23 = ptr + 16 + 7 by omega, inY 7 (by omega)]
    simp [tailBytes, be16]
  have g22 : (putCacheEntry ra ptr e).getD (ptr + 22) 0 = UInt8.ofNat e.type := by
    rw [fin_get _ (by omega), show ptr + 22 = ptr + 16 + 6 by omega, inY 6 (by omega)]
    simp [tailBytes, be16]
  have hnl : (UInt8.ofNat e.nLen).toNat = e.nLen := by
    simp [UInt8.toNat_ofNat']; have := h.n30; omega
  have hcl : (UInt8.ofNat e.cLen).toNat = e.cLen := by
    simp [UInt8.toNat_ofNat']; have := h.c79; omega
  have htl : (UInt8.ofNat e.type).toNat = e.type := by
    simp [UInt8.toNat_ofNat']; have := h.type; omega
  -- the layout of the tail: 8 fixed bytes, the name, the comment length, the comment
  have hnm : e.name.take e.nLen = e.name := List.take_of_length_le (by rw [h.nameLen]; exact Nat.le_refl _)
  have hcm : e.comm.take e.cLen = e.comm := List.take_of_length_le (by rw [h.commLen]; exact Nat.le_refl _)
  let P8 : Bytes := be16 e.days ++ be16 e.mins ++ be16 e.ticks ++ [UInt8.ofNat e.type, UInt8.ofNat e.nLen]
  have hP8 : P8.length = 8 := by simp [P8, be16]
  have htail : tailBytes e = P8 ++ (e.name ++ (UInt8.ofNat e.cLen :: e.comm)) := by
    unfold tailBytes; rw [hnm, hcm]; simp [P8, List.append_assoc]
  have htail2 : tailBytes e = (P8 ++ e.name) ++ (UInt8.ofNat e.cLen :: e.comm) := by
    rw [htail]; simp [List.append_assoc]
  have gcl : (putCacheEntry ra ptr e).getD (ptr + 24 + e.nLen) 0 = UInt8.ofNat e.cLen := by
    rw [fin_get _ (by omega), show ptr + 24 + e.nLen = ptr + 16 + (8 + e.nLen) by omega, inY _ (by omega)]
    rw [htail2, List.getD_eq_getElem?_getD, List.getElem?_append_right (by simp [hP8, h.nameLen])]
    simp [hP8, h.nameLen]
  have sname : slice (putCacheEntry ra ptr e) (ptr + 24) e.nLen = e.name := by
    rw [fin_slice _ _ (by omega), show ptr + 24 = ptr + 16 + 8 by omega, slY 8 e.nLen (by omega)]
    rw [htail, ← hP8, List.drop_left, ← h.nameLen, List.take_left]
  have scomm : slice (putCacheEntry ra ptr e) (ptr + 24 + e.nLen + 1) e.cLen = e.comm := by
    rw [fin_slice _ _ (by omega), show ptr + 24 + e.nLen + 1 = ptr + 16 + (9 + e.nLen) by omega, slY _ e.cLen (by omega)]
    have : tailBytes e = ((P8 ++ e.name) ++ [UInt8.ofNat e.cLen]) ++ e.comm := by rw [htail]; simp [List.append_assoc]
    rw [this]
    have hl : ((P8 ++ e.name) ++ [UInt8.ofNat e.cLen]).length = 9 + e.nLen := by simp [hP8, h.nameLen]; omega
    rw [← hl, List.drop_left, ← h.commLen, List.take_length]
  have w32 : ∀ (k v : Nat), k + 4 ≤ 12 → v < 4294967296 → (∀ j, j < 4 → X.getD (k + j) 0 = (be32 v).getD j 0) →
      getBE32 (putCacheEntry ra ptr e) (ptr + k) = v := by
    intro k v hk hv hx
    apply getBE32_of_getD _ _ _ hv
    · rw [fin_get _ (by omega), inX k (by omega)]; exact hx 0 (by omega)
    · rw [fin_get _ (by omega), show ptr + k + 1 = ptr + (k + 1) by omega, inX _ (by omega)]; exact hx 1 (by omega)
    · rw [fin_get _ (by omega), show ptr + k + 2 = ptr + (k + 2) by omega, inX _ (by omega)]; exact hx 2 (by omega)
    · rw [fin_get _ (by omega), show ptr + k + 3 = ptr + (k + 3) by omega, inX _ (by omega)]; exact hx 3 (by omega)
  have ghdr : getBE32 (putCacheEntry ra ptr e) ptr = e.header := by
    have := w32 0 e.header (by omega) h.hdr (by
      intro j hj
      have : j = 0 ∨ j = 1 ∨ j = 2 ∨ j = 3 := by omega
      rcases this with rfl | rfl | rfl | rfl <;> simp [X, be32])
    simpa using this
  have gsize : getBE32 (putCacheEntry ra ptr e) (ptr + 4) = e.size :=
    w32 4 e.size (by omega) h.size (by
      intro j hj
      have : j = 0 ∨ j = 1 ∨ j = 2 ∨ j = 3 := by omega
      rcases this with rfl | rfl | rfl | rfl <;> simp [X, be32])
  have gprot : getBE32 (putCacheEntry ra ptr e) (ptr + 8) = e.protect :=
    w32 8 e.protect (by omega) h.prot (by
      intro j hj
      have : j = 0 ∨ j = 1 ∨ j = 2 ∨ j = 3 := by omega
      rcases this with rfl | rfl | rfl | rfl <;> simp [X, be32])
  have w16 : ∀ (k v : Nat), k + 2 ≤ 6 → v < 65536 → (∀ j, j < 2 → (tailBytes e).getD (k + j) 0 = (be16 v).getD j 0) →
      getBE16 (putCacheEntry ra ptr e) (ptr + 16 + k) = v := by
    intro k v hk hv hx
    apply getBE16_of_getD _ _ _ hv
    · rw [fin_get _ (by omega), inY k (by omega)]; exact hx 0 (by omega)
    · rw [fin_get _ (by omega), show ptr + 16 + k + 1 = ptr + 16 + (k + 1) by omega, inY _ (by omega)]; exact hx 1 (by omega)
  have gdays : getBE16 (putCacheEntry ra ptr e) (ptr + 16) = e.days := by
    have := w16 0 e.days (by omega) h.days (by
      intro j hj
      have : j = 0 ∨ j = 1 := by omega
      rcases this with rfl | rfl <;> simp [htail, P8, be16])
    simpa using this
  have gmins : getBE16 (putCacheEntry ra ptr e) (ptr + 18) = e.mins := by
    have := w16 2 e.mins (by omega) h.mins (by
      intro j hj
      have : j = 0 ∨ j = 1 := by omega
      rcases this with rfl | rfl <;> simp [htail, P8, be16])
    simpa using this
  have gticks : getBE16 (putCacheEntry ra ptr e) (ptr + 20) = e.ticks := by
    have := w16 4 e.ticks (by omega) h.ticks (by
      intro j hj
      have : j = 0 ∨ j = 1 := by omega
      rcases this with rfl | rfl <;> simp [htail, P8, be16])
    simpa using this
  -- now run the parser
  have hcel : cacheEntryLen e = (if (ptr + 24 + e.nLen + 1 + e.cLen) % 2 ≠ 0 then 25 + e.nLen + e.cLen + 1 else 25 + e.nLen + e.cLen) ∨ True := Or.inr trivial
  unfold getCacheEntry REC_AREA
  simp only [g23, hnl, gcl, hcl, g22, htl, ghdr, gsize, gprot, gdays, gmins, gticks, sname, scomm]
  have hn1 := h.n1; have hn30 := h.n30; have hc79 := h.c79
  have c1 : ¬ ptr > 488 - 26 := by omega
  have c2 : ¬ (e.nLen < 1 ∨ e.nLen > 30) := by omega
  have c3 : ¬ ptr + 24 + e.nLen ≥ 488 := by omega
  have c4 : ¬ e.cLen > 79 := by omega
  have c5 : ¬ ptr + 24 + e.nLen + 1 + e.cLen > 488 := by omega
  rw [if_neg c1, if_neg c2, if_neg c3, if_neg c4, if_neg c5]
  have hnext : (if (ptr + 24 + e.nLen + 1 + e.cLen) % 2 ≠ 0 then ptr + 24 + e.nLen + 1 + e.cLen + 1
      else ptr + 24 + e.nLen + 1 + e.cLen) = ptr + cacheEntryLen e := by
    unfold cacheEntryLen
    simp only
    by_cases hp : (25 + e.nLen + e.cLen) % 2 = 0
    · rw [if_pos hp, if_neg (by omega)]; omega
    · rw [if_neg hp, if_pos (by omega)]; omega
  rw [hnext]

/-- records start at even offsets: offset 0, and every step is even — the hypothesis of the round trip is an
    invariant of a block filled by the writer -/
theorem C07_offsets_stay_even (ptr : Nat) (e : CacheEntry) (h : ptr % 2 = 0) : (ptr + cacheEntryLen e) % 2 = 0 := by
  have := (C07_len_even e).1; omega

/-- witness: a concrete record written at offset 0 of an empty record area and parsed back -/
example : let e : CacheEntry := { header := 882, size := 5, protect := 0, days := 8000, mins := 61, ticks := 150,
                                  type := 253, nLen := 3, name := [97, 98, 99], cLen := 2, comm := [120, 121] }
          getCacheEntry (putCacheEntry (List.replicate 488 0) 0 e) 0 = some (e, 30) := by
  decide

end Adf.C07
