import AdfModel.Api
namespace Adf.C07
theorem C07_placeholder : True := trivial
end Adf.C07
