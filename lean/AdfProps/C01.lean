/-
  C01 — File content fidelity: the positional kernel.
  Model: AdfModel/FileUtil.lean (adfPos2DataBlock, adfFileSize2Datablocks, adfFileDatablocks2Extblocks,
  adfFileRealSize) and the cursor conventions of AdfModel/File.lean.
  Spec: a file of `s` bytes with data-block size `bs` (488 OFS / 512 FFS) occupies ⌈s/bs⌉ data blocks; data
  block n is listed in the file header (slot n) when n < 72 and otherwise in extension block (n-72)/72 at
  slot (n-72)%72.  All statements are for every position and size (no bound), both block sizes; the
  32-bit side conditions of the C code (no wrap-around in pos - 72*bs, bs*72) are theorems too.
  The data path inside one data block: a write that fits into the current block performs no device access, returns the
  count asked for and puts exactly the caller's bytes at the position's offset of the handle's buffer (every other byte
  of the buffer kept); a flush writes that buffer to the block the handle designates (FFS: the 512 bytes as they are) and
  nothing but the file's own extension block, header and the bitmap besides; and (C19_read_returns_disk_bytes) what a
  read delivers is the disk content of the block the handle designates.
  NOT proved here (see MANIFEST level_note): that the read/write/truncate loops of the model refine the
  byte-array file across block boundaries and allocations; that verdict comes from the byte-array oracle on the real code.
-/
import AdfModel.FileUtil
import AdfProofs.FlushWriteSet
namespace Adf.C01
open Adf

theorem div_of_decomp (a bs q r : Nat) (h : a = bs * q + r) (hr : r < bs) : a / bs = q ∧ a % bs = r := by
  subst h
  have hbs : 0 < bs := by omega
  constructor
  · rw [Nat.mul_add_div hbs, Nat.div_eq_of_lt hr]; rfl
  · rw [Nat.mul_add_mod, Nat.mod_eq_of_lt hr]

theorem decomp (a bs : Nat) (hbs : 0 < bs) : ∃ q r, a = bs * q + r ∧ r < bs ∧ a / bs = q ∧ a % bs = r :=
  ⟨a / bs, a % bs, (Nat.div_add_mod a bs).symm, Nat.mod_lt a hbs, rfl, rfl⟩

/-- `adfPos2DataBlock` computes exactly the (block, offset, extension block, slot) of a byte position -/
theorem C01_pos2DataBlock_spec (pos bs : Nat) (hbs : 0 < bs) :
    let r := pos2DataBlock pos bs
    r.curDataN = pos / bs ∧ r.posInDataBlk = pos % bs ∧
    pos = r.curDataN * bs + r.posInDataBlk ∧ r.posInDataBlk < bs ∧
    (pos / bs < 72 → r.extBlock = none ∧ r.posInExtBlk = 0) ∧
    (72 ≤ pos / bs → r.extBlock = some ((pos / bs - 72) / 72) ∧ r.posInExtBlk = (pos / bs - 72) % 72) := by
  unfold pos2DataBlock MAX_DATABLK
  have hdm : pos = pos / bs * bs + pos % bs := by
    rw [Nat.mul_comm]; exact (Nat.div_add_mod pos bs).symm
  by_cases h : pos / bs < 72
  · rw [if_pos h]
    exact ⟨rfl, rfl, hdm, Nat.mod_lt _ hbs, fun _ => ⟨rfl, rfl⟩, fun h2 => absurd h (by omega)⟩
  · rw [if_neg h]
    have hge : 72 ≤ pos / bs := by omega
    have hle : 72 * bs ≤ pos := (Nat.le_div_iff_mul_le hbs).mp hge
    have h1 : (pos - bs * 72) / bs = pos / bs - 72 := by
      obtain ⟨q, r, hq, hr, hd, _⟩ := decomp pos bs hbs
      rw [hd] at hge ⊢
      obtain ⟨q', rfl⟩ : ∃ q', q = q' + 72 := ⟨q - 72, by omega⟩
      have : pos - bs * 72 = bs * q' + r := by rw [hq, Nat.mul_add]; omega
      rw [this, (div_of_decomp _ bs q' r rfl hr).1]; omega
    refine ⟨rfl, rfl, hdm, Nat.mod_lt _ hbs, fun h2 => absurd h2 h, fun _ => ⟨?_, ?_⟩⟩
    · show some ((pos - bs * 72) / (bs * 72)) = some ((pos / bs - 72) / 72)
      rw [← Nat.div_div_eq_div_mul, h1]
    · show (pos - bs * 72) / bs % 72 = (pos / bs - 72) % 72
      rw [h1]

/-- no 32-bit wrap-around in the subtraction the C code performs: when the block index is ≥ 72 the
    position is at least 72 blocks -/
theorem C01_no_underflow (pos bs : Nat) (hbs : 0 < bs) (h : 72 ≤ pos / bs) : bs * 72 ≤ pos := by
  have := (Nat.le_div_iff_mul_le hbs).mp h
  rw [Nat.mul_comm]; exact this

/-- the intermediate products stay in 32 bits for both block sizes -/
theorem C01_no_overflow (bs : Nat) (h : bs = 488 ∨ bs = 512) : bs * 72 < 4294967296 := by
  rcases h with rfl | rfl <;> decide

/-- inverse direction: slot `s` of extension block `e` holds data block 72 + 72*e + s -/
theorem C01_ext_slot_inverse (e s : Nat) (hs : s < 72) :
    (72 + 72 * e + s - 72) / 72 = e ∧ (72 + 72 * e + s - 72) % 72 = s := by
  omega

/-- `adfFileSize2Datablocks` is the ceiling of size / block size -/
theorem C01_size2Datablocks_ceil (fsize bs : Nat) (hbs : 0 < bs) :
    fileSize2Datablocks fsize bs = (fsize + bs - 1) / bs := by
  unfold fileSize2Datablocks
  obtain ⟨q, r, hq, hr, hd, hm⟩ := decomp fsize bs hbs
  rw [hd, hm]
  by_cases h0 : r > 0
  · rw [if_pos h0]
    have : fsize + bs - 1 = bs * (q + 1) + (r - 1) := by rw [hq, Nat.mul_add]; omega
    rw [this, (div_of_decomp _ bs (q + 1) (r - 1) rfl (by omega)).1]
  · rw [if_neg h0]
    have : fsize + bs - 1 = bs * q + (bs - 1) := by omega
    rw [this, (div_of_decomp _ bs q (bs - 1) rfl (by omega)).1]; rfl

/-- the data blocks of a file cover it exactly: n blocks hold `fsize` bytes and n-1 do not -/
theorem C01_datablocks_cover (fsize bs : Nat) (hbs : 0 < bs) (hs : 0 < fsize) :
    let n := fileSize2Datablocks fsize bs
    1 ≤ n ∧ (n - 1) * bs < fsize ∧ fsize ≤ n * bs ∧ (fsize - 1) / bs = n - 1 := by
  unfold fileSize2Datablocks
  obtain ⟨q, r, hq, hr, hd, hm⟩ := decomp fsize bs hbs
  simp only [hd, hm]
  by_cases h0 : r > 0
  · rw [if_pos h0]
    simp only [Nat.add_sub_cancel]
    have e1 : q * bs = bs * q := Nat.mul_comm _ _
    have e2 : (q + 1) * bs = bs * q + bs := by rw [Nat.add_mul, e1]; simp
    refine ⟨by omega, by omega, by omega, ?_⟩
    have : fsize - 1 = bs * q + (r - 1) := by omega
    rw [this, (div_of_decomp _ bs q (r - 1) rfl (by omega)).1]
  · rw [if_neg h0]
    have hr0 : r = 0 := by omega
    subst hr0
    simp only [Nat.add_zero] at hq ⊢
    have hq1 : 1 ≤ q := by
      rcases Nat.eq_zero_or_pos q with h | h
      · subst h; simp at hq; omega
      · exact h
    obtain ⟨q', rfl⟩ : ∃ q', q = q' + 1 := ⟨q - 1, by omega⟩
    simp only [Nat.add_sub_cancel]
    have e1 : q' * bs = bs * q' := Nat.mul_comm _ _
    have e2 : (q' + 1) * bs = bs * q' + bs := by rw [Nat.add_mul, e1]; simp
    have e3 : bs * (q' + 1) = bs * q' + bs := by rw [Nat.mul_add]; simp
    refine ⟨by omega, by omega, by omega, ?_⟩
    have : fsize - 1 = bs * q' + (bs - 1) := by omega
    rw [this, (div_of_decomp _ bs q' (bs - 1) rfl (by omega)).1]

/-- `adfFileDatablocks2Extblocks`: number of extension blocks needed for n data blocks -/
theorem C01_extblocks_spec (n : Nat) :
    fileDatablocks2Extblocks n = (if n ≤ 72 then 0 else (n - 72 + 71) / 72) := by
  unfold fileDatablocks2Extblocks MAX_DATABLK
  by_cases h : n < 1
  · have : n = 0 := by omega
    subst this; simp
  · simp only [h, ↓reduceIte]
    by_cases h2 : n ≤ 72
    · simp only [h2, ↓reduceIte]; omega
    · simp only [h2, ↓reduceIte]; omega

/-- the extension block that lists the LAST data block is the last extension block -/
theorem C01_last_ext_index (n : Nat) (h : 72 < n) :
    (n - 1 - 72) / 72 + 1 = fileDatablocks2Extblocks n := by
  rw [C01_extblocks_spec]; simp only [show ¬ n ≤ 72 by omega, ↓reduceIte]; omega

/-- `adfFileRealSize` agrees with the two inline helpers (they are separate code in C) -/
theorem C01_realSize_agrees (size bs : Nat) (hbs : 0 < bs) :
    (fileRealSize size bs).1 = fileSize2Datablocks size bs ∧
    (fileRealSize size bs).2.1 = fileDatablocks2Extblocks (fileSize2Datablocks size bs) ∧
    (fileRealSize size bs).2.2 = fileSize2Blocks size bs := by
  have hd : (fileRealSize size bs).1 = fileSize2Datablocks size bs := by
    unfold fileRealSize fileSize2Datablocks
    by_cases hm : size % bs > 0
    · have : size % bs ≠ 0 := by omega
      simp [hm, this]
    · have : size % bs = 0 := by omega
      simp [this]
  have he : (fileRealSize size bs).2.1 = fileDatablocks2Extblocks (fileSize2Datablocks size bs) := by
    rw [← hd, C01_extblocks_spec]
    unfold fileRealSize MAX_DATABLK
    simp only
    generalize size / bs + (if size % bs ≠ 0 then 1 else 0) = d
    by_cases h : d > 72
    · simp only [h, ↓reduceIte, show ¬ d ≤ 72 by omega]
      by_cases h2 : (d - 72) % 72 = 0
      · simp [h2]; omega
      · simp [h2]; omega
    · simp only [h, ↓reduceIte, show d ≤ 72 by omega]
  refine ⟨hd, he, ?_⟩
  unfold fileSize2Blocks fileSize2Extblocks
  rw [← he, ← hd]
  unfold fileRealSize
  simp only
  omega

/-- shrinking never needs more blocks: the counts used by the truncation are monotone in the size, so the
    number of blocks to release, (nD_old + nE_old) - (nD_new + nE_new), is a true difference -/
theorem C01_truncate_monotone (old new bs : Nat) (hbs : 0 < bs) (h : new ≤ old) :
    fileSize2Datablocks new bs ≤ fileSize2Datablocks old bs ∧
    fileDatablocks2Extblocks (fileSize2Datablocks new bs) ≤ fileDatablocks2Extblocks (fileSize2Datablocks old bs) := by
  have h1 : fileSize2Datablocks new bs ≤ fileSize2Datablocks old bs := by
    rw [C01_size2Datablocks_ceil _ _ hbs, C01_size2Datablocks_ceil _ _ hbs]
    exact Nat.div_le_div_right (by omega)
  refine ⟨h1, ?_⟩
  rw [C01_extblocks_spec, C01_extblocks_spec]
  generalize fileSize2Datablocks new bs = a at h1 ⊢
  generalize fileSize2Datablocks old bs = b at h1 ⊢
  by_cases ha : a ≤ 72
  · simp [ha]
  · have hb : ¬ b ≤ 72 := by omega
    simp only [ha, hb, ↓reduceIte]
    exact Nat.div_le_div_right (by omega)

/-- the end-of-file cursor convention of the handle (`adfFileSeekEOF_`): with the last block loaded,
    `nDataBlock = ⌈s/bs⌉` and `posInDataBlk = bs` when the size is block-aligned, the decomposition
    `pos = (nDataBlock-1)*bs + posInDataBlk` still gives the size -/
theorem C01_eof_cursor (s bs : Nat) (hbs : 0 < bs) (hs : 0 < s) :
    let n := fileSize2Datablocks s bs
    let pidb := if s % bs = 0 then bs else s % bs
    (n - 1) * bs + pidb = s ∧ 0 < pidb ∧ pidb ≤ bs := by
  unfold fileSize2Datablocks
  obtain ⟨q, r, hq, hr, hd, hm⟩ := decomp s bs hbs
  simp only [hd, hm]
  by_cases h0 : r = 0
  · subst h0
    simp only [Nat.lt_irrefl, ↓reduceIte, Nat.add_zero] at hq ⊢
    have hq1 : 1 ≤ q := by
      rcases Nat.eq_zero_or_pos q with h | h
      · subst h; simp at hq; omega
      · exact h
    obtain ⟨q', rfl⟩ : ∃ q', q = q' + 1 := ⟨q - 1, by omega⟩
    simp only [Nat.add_sub_cancel]
    have e1 : q' * bs = bs * q' := Nat.mul_comm _ _
    have e3 : bs * (q' + 1) = bs * q' + bs := by rw [Nat.mul_add]; simp
    exact ⟨by omega, hbs, Nat.le_refl _⟩
  · have hpos : r > 0 := by omega
    simp only [h0, hpos, ↓reduceIte, Nat.add_sub_cancel]
    have e1 : q * bs = bs * q := Nat.mul_comm _ _
    exact ⟨by omega, trivial, by omega⟩

/-- non-vacuity and the boundary cases of the property text, evaluated by the kernel -/
example : pos2DataBlock (72 * 488) 488 = ⟨some 0, 0, 0, 72⟩ ∧ pos2DataBlock (72 * 488 - 1) 488 = ⟨none, 0, 487, 71⟩ ∧
          pos2DataBlock (144 * 512 + 5) 512 = ⟨some 1, 0, 5, 144⟩ ∧
          fileSize2Datablocks (72 * 512) 512 = 72 ∧ fileSize2Datablocks (72 * 512 + 1) 512 = 73 ∧
          fileDatablocks2Extblocks 72 = 0 ∧ fileDatablocks2Extblocks 73 = 1 ∧ fileDatablocks2Extblocks 144 = 1 ∧
          fileDatablocks2Extblocks 145 = 2 := by decide

/-- **a write inside the current data block** (position not on a block boundary, `buf` no longer than what is left of the
    block): no device access at all, the count returned is the count asked for, the handle is `wroteInBlock` -/
theorem C01_write_in_block (c : Cfg) (dbs doff fuel : Nat) (h : FileH) (buf : Bytes) (written : Nat) (s : St)
    (hmid : h.pos % dbs ≠ 0) (hne : buf ≠ []) (hfit : buf.length ≤ dbs - h.posInDataBlk) :
    run c (fileWriteLoop dbs doff (fuel + 1) h buf written) s = (.ok (written + buf.length, wroteInBlock doff h buf), s) :=
  fileWriteLoop_in_block c dbs doff fuel h buf written s hmid hne hfit

/-- afterwards the buffer holds the caller's bytes at the position's offset, every other byte of it is unchanged, and the
    position advanced by the count -/
theorem C01_buffer_holds_written_bytes (doff : Nat) (h : FileH) (buf : Bytes) (hin : doff + h.posInDataBlk + buf.length ≤ 512) :
    slice (wroteInBlock doff h buf).curData (doff + h.posInDataBlk) buf.length = buf ∧
    (∀ i, i < doff + h.posInDataBlk ∨ doff + h.posInDataBlk + buf.length ≤ i →
      (wroteInBlock doff h buf).curData.getD i 0 = (padTo h.curData 512).getD i 0) ∧
    (wroteInBlock doff h buf).pos = h.pos + buf.length ∧ (wroteInBlock doff h buf).curDataPtr = h.curDataPtr :=
  ⟨wroteInBlock_holds doff h buf hin, fun i hi => wroteInBlock_frame doff h buf i hin hi, rfl, rfl⟩

/-- a flush hands exactly that buffer to the device, addressed to the block the handle designates; on FFS volumes the
    sector image is the buffer itself -/
theorem C01_flush_writes_buffer (c : Cfg) (h : FileH) (s : St) (hwf : BlkWF h.hdr)
    (hnc : isDIRCACHE (c.vol h.vol).dosType = false) :
    Post AnyFault c (fileFlush h) s (fun _ s' => ∃ W, writesOf s'.trace = W ++ writesOf s.trace ∧ FlushWrites c h W) :=
  fileFlush_write_set c h s hwf hnc

theorem C01_ffs_image_is_buffer (vc : VolCfg) (d : Bytes) (hffs : vc.dosType % 2 ≠ 0) (hl : d.length = 512) :
    dataImage vc d = d := by
  unfold dataImage; rw [if_neg hffs]; exact padTo_id d 512 hl

/-- the premises of `C01_write_in_block` are met, e.g., by 3 bytes written at position 5 of a 512-byte block -/
example : (5 % 512 ≠ 0) ∧ (([1, 2, 3] : Bytes) ≠ []) ∧ ([1, 2, 3] : Bytes).length ≤ 512 - 5 := by decide

end Adf.C01
