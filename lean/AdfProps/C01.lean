import AdfModel.FileUtil
namespace Adf.C01
theorem C01_placeholder : True := trivial
end Adf.C01
