/-
  C13 — Volume containment: a volume never touches blocks outside its own range.

  Every volume-level access of the model goes through the primitives `volRead` / `volWrite`
  (adfReadBlock / adfWriteBlock), which translate the logical block number modulo 2^32 (the C
  code computes in `unsigned`) and range-check the result.  The theorem is about EVERY program:
  every event tagged with volume v has its physical sector inside [firstBlock v, lastBlock v] —
  whatever block numbers the program took from on-disk structures.
  Raw device accesses (tag `none`) are made only by the open/mount code (RDSK/PART/FSHD/LSEG
  lists, hardfile root search) and by adfCreateHdHeader; they are outside every volume by design
  and are compared with the C run by the correspondence check.
-/
import AdfProofs.ProgLemmas
import AdfModel.Vol
namespace Adf.C13
open Adf

def InRange (c : Cfg) : Ev → Prop
  | .rd (some v) n _ _ => (c.vol v).firstBlock ≤ n ∧ n ≤ (c.vol v).lastBlock
  | .wr (some v) n _ _ _ => (c.vol v).firstBlock ≤ n ∧ n ≤ (c.vol v).lastBlock
  | _ => True

theorem prim_inRange (c : Cfg) {β : Type} (pr : Prim β) (s : St) :
    ∃ evs, (runPrim c pr s).2.trace = evs ++ s.trace ∧ ∀ e ∈ evs, InRange c e := by
  cases pr with
  | volRead v n =>
    simp only [runPrim]
    split
    · exact ⟨[], by simp, by simp⟩
    · split
      · exact ⟨[], by simp, by simp⟩
      · rename_i _ hr
        obtain ⟨st, h, _⟩ := devReadRaw_trace c (some v) ((n + (c.vol v).firstBlock) % 4294967296) 512 s
        refine ⟨_, h, ?_⟩
        intro e he
        simp only [List.mem_singleton] at he
        subst he
        simp only [InRange]
        omega
  | volWrite v n b =>
    simp only [runPrim]
    split
    · exact ⟨[], by simp, by simp⟩
    · split
      · exact ⟨[], by simp, by simp⟩
      · split
        · exact ⟨[], by simp, by simp⟩
        · rename_i _ _ hr
          obtain ⟨st, h, _⟩ := devWriteRaw_trace c (some v) ((n + (c.vol v).firstBlock) % 4294967296) 512 b s
          refine ⟨_, h, ?_⟩
          intro e he
          simp only [List.mem_singleton] at he
          subst he
          simp only [InRange]
          omega
  | devRead n size =>
    simp only [runPrim]
    obtain ⟨st, h, _⟩ := devReadRaw_trace c none n size s
    exact ⟨_, h, by simp [InRange]⟩
  | devWrite n size b =>
    simp only [runPrim]
    split
    · exact ⟨[], by simp, by simp⟩
    · obtain ⟨st, h, _⟩ := devWriteRaw_trace c none n size b s
      exact ⟨_, h, by simp [InRange]⟩
  | getCfg => exact ⟨[], by simp [runPrim], by simp⟩
  | getMem => exact ⟨[], by simp [runPrim], by simp⟩
  | setMem m => exact ⟨[], by simp [runPrim], by simp⟩
  | now => exact ⟨[], by simp [runPrim], by simp⟩

/-- every access made on behalf of a volume falls inside that volume's block range, for every
    program, every disk content and every logical block number (including the 2^32 wrap-around) -/
theorem C13_contained (c : Cfg) {α : Type} (p : Prog α) (s : St) :
    ∃ evs, (run c p s).2.trace = evs ++ s.trace ∧ ∀ e ∈ evs, InRange c e :=
  run_trace_inv c (InRange c) (fun pr s => prim_inRange c pr s) p s

/-- the ranges adfCreateVol derives from cylinder numbers: partitions with disjoint cylinder
    ranges get disjoint block ranges, none of which contains the RDB area (cylinders 0 and 1) -/
def volFirst (heads secs startCyl : Nat) : Nat := heads * secs * startCyl
def volLast (heads secs startCyl lenCyl : Nat) : Nat := heads * secs * startCyl + heads * secs * lenCyl - 1

theorem C13_partitions_disjoint (heads secs s1 l1 s2 l2 : Nat) (hpos : 0 < heads * secs)
    (hl1 : 0 < l1) (hdis : s1 + l1 ≤ s2) :
    volLast heads secs s1 l1 < volFirst heads secs s2 := by
  unfold volLast volFirst
  have h1 : heads * secs * (s1 + l1) ≤ heads * secs * s2 := Nat.mul_le_mul_left _ hdis
  rw [Nat.mul_add] at h1
  have h2 : 0 < heads * secs * l1 := Nat.mul_pos hpos hl1
  omega

theorem C13_rdb_area_untouched (heads secs startCyl : Nat) (h2 : 2 ≤ startCyl) :
    heads * secs * 2 ≤ volFirst heads secs startCyl := by
  unfold volFirst
  exact Nat.mul_le_mul_left _ h2

def okWriteAt (n : Nat) : Ev → Prop
  | .wr _ m _ _ st => m = n ∧ st = 0
  | _ => False

/-- the bytes of a sector change only through a successful write event at that very sector:
    if the trace of a run holds no such event for sector `n`, sector `n` is byte-identical
    afterwards.  With `C13_contained` (volume events stay in range) and
    `C13_partitions_disjoint`, operations on one partition leave the bytes of every other
    partition and of the partition-table area unchanged. -/
theorem C13_unchanged_unless_written (c : Cfg) {α : Type} (p : Prog α) (s : St) (n : Nat)
    (hno : ∀ e ∈ (run c p s).2.trace, ¬ okWriteAt n e) :
    (run c p s).2.sector n = s.sector n := by
  -- invariant: "no ok-write at n in the trace so far → sector n unchanged", plus trace growth
  have key : ∀ {β : Type} (q : Prog β) (st : St),
      (∃ evs, (run c q st).2.trace = evs ++ st.trace) ∧
      ((∀ e ∈ (run c q st).2.trace, ¬ okWriteAt n e) → (run c q st).2.sector n = st.sector n) := by
    intro β q
    induction q with
    | pure a => intro st; exact ⟨⟨[], by simp [run]⟩, fun _ => by simp [run]⟩
    | fail f => intro st; exact ⟨⟨[], by simp [run]⟩, fun _ => by simp [run]⟩
    | prim pr =>
      intro st
      simp only [run]
      cases pr with
      | volRead v m =>
        simp only [runPrim]
        split
        · exact ⟨⟨[], by simp⟩, fun _ => rfl⟩
        · split
          · exact ⟨⟨[], by simp⟩, fun _ => rfl⟩
          · obtain ⟨_, h, hd⟩ := devReadRaw_trace c (some v) ((m + (c.vol v).firstBlock) % 4294967296) 512 st
            exact ⟨⟨_, h⟩, fun _ => by simp [St.sector, hd]⟩
      | volWrite v m b =>
        simp only [runPrim]
        split
        · exact ⟨⟨[], by simp⟩, fun _ => rfl⟩
        · split
          · exact ⟨⟨[], by simp⟩, fun _ => rfl⟩
          · split
            · exact ⟨⟨[], by simp⟩, fun _ => rfl⟩
            · obtain ⟨_, h, _⟩ := devWriteRaw_trace c (some v) ((m + (c.vol v).firstBlock) % 4294967296) 512 b st
              refine ⟨⟨_, h⟩, fun hn => ?_⟩
              rcases devWriteRaw_sector c (some v) ((m + (c.vol v).firstBlock) % 4294967296) 512 b st n with h1 | ⟨h1, h2⟩
              · exact h1
              · exfalso
                simp only at hn
                exact hn (Ev.wr (some v) ((m + (c.vol v).firstBlock) % 4294967296) 512 b 0)
                  (by rw [h2]; exact List.mem_cons_self) (by simp [okWriteAt, h1])
      | devRead m size =>
        simp only [runPrim]
        obtain ⟨_, h, hd⟩ := devReadRaw_trace c none m size st
        exact ⟨⟨_, h⟩, fun _ => by simp [St.sector, hd]⟩
      | devWrite m size b =>
        simp only [runPrim]
        split
        · exact ⟨⟨[], by simp⟩, fun _ => rfl⟩
        · obtain ⟨_, h, _⟩ := devWriteRaw_trace c none m size b st
          refine ⟨⟨_, h⟩, fun hn => ?_⟩
          rcases devWriteRaw_sector c none m size b st n with h1 | ⟨h1, h2⟩
          · exact h1
          · exfalso
            simp only at hn
            exact hn (Ev.wr none m size b 0)
              (by rw [h2]; exact List.mem_cons_self) (by simp [okWriteAt, h1])
      | getCfg => exact ⟨⟨[], by simp [runPrim]⟩, fun _ => rfl⟩
      | getMem => exact ⟨⟨[], by simp [runPrim]⟩, fun _ => rfl⟩
      | setMem m => exact ⟨⟨[], by simp [runPrim]⟩, fun _ => rfl⟩
      | now => exact ⟨⟨[], by simp [runPrim]⟩, fun _ => rfl⟩
    | bind q k ihq ihk =>
      intro st
      obtain ⟨⟨e1, ht1⟩, hs1⟩ := ihq st
      simp only [run]
      cases hr : run c q st with
      | mk r s' =>
        rw [hr] at ht1 hs1
        cases r with
        | ok b =>
          obtain ⟨⟨e2, ht2⟩, hs2⟩ := ihk b s'
          simp only at ht1 hs1 ⊢
          refine ⟨⟨e2 ++ e1, by rw [ht2, ht1]; simp⟩, fun hn => ?_⟩
          rw [hs2 hn]
          apply hs1
          intro e he
          apply hn e
          rw [ht2]; exact List.mem_append_right _ he
        | fault f =>
          simp only at ht1 hs1 ⊢
          exact ⟨⟨e1, ht1⟩, hs1⟩
  exact (key p s).2 hno

end Adf.C13
