/-
  C15 — Name matching: AmigaDOS case folding (function level).
  Model: AdfModel/Names.lean (adfToUpper, adfIntlToUpper, adfStrToUpper, adfGetHashValue and the
  comparison made by adfNameToEntryBlk / adfCreateEntry / adfRenameEntry).
  Spec: AmigaDOS upper-casing written from doc/FAQ/adf_info.txt: a..z -> A..Z always; on
  international (and directory-cache) volumes also 0xE0..0xFE except 0xF7 -> minus 0x20.
  The stateful clauses (lookup finds / duplicate refused / listed name opens) are decided on
  the real code by the (N, M) histories of tools/props/C15.py against the tree model.
-/
import AdfModel.Names
namespace Adf.C15
open Adf

/-- the specification of AmigaDOS upper-casing of one byte -/
def specUpper (intl : Bool) (c : Nat) : Nat :=
  if 97 ≤ c ∧ c ≤ 122 then c - 32
  else if intl ∧ 224 ≤ c ∧ c ≤ 254 ∧ c ≠ 247 then c - 32
  else c

/-- the code's table equals the specification on all 256 byte values, both modes -/
theorem C15_upper_table (intl : Bool) : ∀ c : Nat, c < 256 →
    (upperCh intl (UInt8.ofNat c)).toNat = specUpper intl c := by
  cases intl <;> decide +kernel

/-- upper-casing is idempotent (so comparing folded names is an equivalence) -/
theorem C15_upper_idem (intl : Bool) : ∀ c : Nat, c < 256 →
    upperCh intl (upperCh intl (UInt8.ofNat c)) = upperCh intl (UInt8.ofNat c) := by
  cases intl <;> decide +kernel

theorem upperCh_idem (intl : Bool) (c : UInt8) : upperCh intl (upperCh intl c) = upperCh intl c := by
  have := C15_upper_idem intl c.toNat c.toNat_lt
  simpa using this

/-- the folded form of a name as the library stores and compares it: first 30 bytes, upper-cased -/
def folded (intl : Bool) (name : Bytes) : Bytes := strToUpper intl (name.take MAXNAMELEN)

/-- the hash slot is a function of the folded name: names that fold to the same string hash alike -/
theorem C15_hash_respects (intl : Bool) (a b : Bytes) (h : folded intl a = folded intl b) :
    hashName intl a = hashName intl b := by
  unfold hashName
  have hlen : (a.take MAXNAMELEN).length = (b.take MAXNAMELEN).length := by
    have := congrArg List.length h
    simpa [folded, strToUpper] using this
  -- the fold only looks at upper-cased characters
  have key : ∀ (l : Bytes) (init : Nat),
      l.foldl (fun h c => (h * 13 + (upperCh intl c).toNat) % 2048) init
        = (l.map (upperCh intl)).foldl (fun h c => (h * 13 + c.toNat) % 2048) init := by
    intro l
    induction l with
    | nil => intro init; rfl
    | cons c l ih => intro init; simp [List.foldl, ih]
  simp only []
  rw [key, key, hlen]
  have : (a.take MAXNAMELEN).map (upperCh intl) = (b.take MAXNAMELEN).map (upperCh intl) := by
    simpa [folded, strToUpper] using h
  rw [this]

/-- every hash value is a valid slot of the 72-entry table -/
theorem C15_hash_lt (intl : Bool) (name : Bytes) : hashName intl name < HT_SIZE := by
  unfold hashName HT_SIZE
  exact Nat.mod_lt _ (by decide)

/-- the comparison used by lookup, creation and rename is exactly equality of folded names -/
theorem C15_sameName_iff (intl : Bool) (a b : Bytes) :
    sameName intl a b = true ↔ folded intl a = folded intl b := by
  unfold sameName folded
  constructor
  · intro h
    simp only [Bool.and_eq_true, beq_iff_eq] at h
    exact h.2
  · intro h
    simp only [Bool.and_eq_true, beq_iff_eq]
    refine ⟨?_, h⟩
    have := congrArg List.length h
    simpa [strToUpper] using this

/-- matching is an equivalence relation on names -/
theorem C15_sameName_refl (intl : Bool) (a : Bytes) : sameName intl a a = true :=
  (C15_sameName_iff intl a a).2 rfl
theorem C15_sameName_symm (intl : Bool) (a b : Bytes) (h : sameName intl a b = true) : sameName intl b a = true :=
  (C15_sameName_iff intl b a).2 ((C15_sameName_iff intl a b).1 h).symm
theorem C15_sameName_trans (intl : Bool) (a b c : Bytes) (h1 : sameName intl a b = true) (h2 : sameName intl b c = true) :
    sameName intl a c = true :=
  (C15_sameName_iff intl a c).2 (((C15_sameName_iff intl a b).1 h1).trans ((C15_sameName_iff intl b c).1 h2))

/-- names longer than 30 bytes are treated as their 30-byte prefix, consistently by hashing and matching:
    the name a listing reports (the stored 30-byte prefix) matches the name it was created under -/
theorem C15_long_names_consistent (intl : Bool) (n : Bytes) :
    sameName intl n (n.take MAXNAMELEN) = true ∧ hashName intl n = hashName intl (n.take MAXNAMELEN) := by
  have hf : folded intl n = folded intl (n.take MAXNAMELEN) := by
    unfold folded; rw [List.take_take]; simp
  exact ⟨(C15_sameName_iff intl _ _).2 hf, C15_hash_respects intl _ _ hf⟩

/-- matching names sit in the same hash chain (so a lookup walks the chain that holds the entry) -/
theorem C15_match_same_slot (intl : Bool) (a b : Bytes) (h : sameName intl a b = true) :
    hashName intl a = hashName intl b :=
  C15_hash_respects intl a b ((C15_sameName_iff intl a b).1 h)

/-- a plain (non-international) volume does NOT fold Latin-1 letters, an international one does,
    and 0xF7 / 0xFF are never folded: concrete witnesses -/
example : sameName false [0xE9] [0xC9] = false ∧ sameName true [0xE9] [0xC9] = true ∧
          sameName true [0xF7] [0xD7] = false ∧ sameName true [0xFF] [0xDF] = false ∧
          sameName false [0x61, 0x62] [0x41, 0x42] = true := by decide

end Adf.C15
