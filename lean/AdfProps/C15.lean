import AdfModel.Names
namespace Adf.C15
theorem C15_placeholder : True := trivial
end Adf.C15
