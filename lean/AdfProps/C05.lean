/-
  C05 — Allocation conservation: free-space accounting kernel.
  Model: AdfModel/Bitmap.lean (`countFreeBlocks` = number of b in [2, last] with `bmIsFree`), `bmSetWord`, `scanFree`.
  The theorems: marking one block used / free changes the count by exactly one (or not at all when it was
  already in that state); an allocation of nb blocks lowers the count by exactly nb and releasing the same blocks
  restores it (create-then-delete restores the count, at the bitmap level); the count of a fresh volume.
  At the level of an operation: `adfCreateEntry` (the allocation site shared by file creation, directory creation and
  rename) takes exactly one block when it succeeds and none when it fails, for every disk content and fault schedule —
  including the path where the block is already allocated and the write that links the entry is refused
  (`C05_create_entry_takes_one_or_none`): the free MAP (not only the count) is restored.
  NOT proved (MANIFEST): that every other operation of the library releases exactly the blocks it owns; checked on
  the explored histories by the independent decoder and the exact free-count model.
-/
import AdfProofs.BitmapLemmas
import AdfProps.C04
import AdfProofs.NoLeakLemmas
import AdfProofs.UndelRestore
namespace Adf.C05
open Adf

/-- number of free blocks among `bs` -/
def countIn (tbl : List Blk) (bs : List Nat) : Nat := (bs.filter (bmIsFree tbl)).length

/-- the library's count: blocks 2 … last -/
def freeCount (tbl : List Blk) (last : Nat) : Nat := countIn tbl (List.range' 2 (last + 1 - 2))

theorem countIn_set_notin (tbl : List Blk) (n : Nat) (f : Bool) (hwf : TableWF tbl) (hn : 2 ≤ n)
    (hpg : (n - 2) / BM_PAGE_BLOCKS < tbl.length) (bs : List Nat) (h2 : ∀ b ∈ bs, 2 ≤ b) (hnot : n ∉ bs) :
    countIn (bmSetWord tbl n f) bs = countIn tbl bs := by
  unfold countIn
  congr 1
  apply List.filter_congr
  intro b hb
  exact bmIsFree_set_other tbl n b f hwf hn (h2 b hb) (fun e => hnot (e ▸ hb)) hpg

/-- marking a FREE block of the list used lowers the count by exactly one -/
theorem C05_use_one (tbl : List Blk) (n : Nat) (hwf : TableWF tbl) (hn : 2 ≤ n)
    (hpg : (n - 2) / BM_PAGE_BLOCKS < tbl.length) (bs : List Nat) (h2 : ∀ b ∈ bs, 2 ≤ b) (hnd : bs.Nodup)
    (hmem : n ∈ bs) (hfree : bmIsFree tbl n = true) :
    countIn (bmSetWord tbl n false) bs + 1 = countIn tbl bs := by
  induction bs with
  | nil => cases hmem
  | cons a bs ih =>
    have hnd' := List.nodup_cons.mp hnd
    by_cases ha : a = n
    · subst ha
      have hrest := countIn_set_notin tbl a false hwf hn hpg bs (fun b hb => h2 b (by simp [hb])) hnd'.1
      unfold countIn at hrest ⊢
      rw [List.filter_cons_of_neg (by rw [bmIsFree_set_same tbl a false hwf hpg]; simp),
          List.filter_cons_of_pos (by simpa using hfree), hrest]
      simp
    · have hm : n ∈ bs := by
        rcases List.mem_cons.mp hmem with h | h
        · exact absurd h.symm ha
        · exact h
      have := ih (fun b hb => h2 b (by simp [hb])) hnd'.2 hm
      have hsame : bmIsFree (bmSetWord tbl n false) a = bmIsFree tbl a :=
        bmIsFree_set_other tbl n a false hwf hn (h2 a (by simp)) (fun e => ha e.symm) hpg
      unfold countIn at this ⊢
      by_cases hfa : bmIsFree tbl a = true
      · rw [List.filter_cons_of_pos (by rw [hsame]; simpa using hfa), List.filter_cons_of_pos (by simpa using hfa)]
        simp only [List.length_cons]; omega
      · rw [List.filter_cons_of_neg (by rw [hsame]; simpa using hfa), List.filter_cons_of_neg (by simpa using hfa)]
        exact this

/-- marking a USED block of the list free raises the count by exactly one -/
theorem C05_free_one (tbl : List Blk) (n : Nat) (hwf : TableWF tbl) (hn : 2 ≤ n)
    (hpg : (n - 2) / BM_PAGE_BLOCKS < tbl.length) (bs : List Nat) (h2 : ∀ b ∈ bs, 2 ≤ b) (hnd : bs.Nodup)
    (hmem : n ∈ bs) (hused : bmIsFree tbl n = false) :
    countIn (bmSetWord tbl n true) bs = countIn tbl bs + 1 := by
  induction bs with
  | nil => cases hmem
  | cons a bs ih =>
    have hnd' := List.nodup_cons.mp hnd
    by_cases ha : a = n
    · subst ha
      have hrest := countIn_set_notin tbl a true hwf hn hpg bs (fun b hb => h2 b (by simp [hb])) hnd'.1
      unfold countIn at hrest ⊢
      rw [List.filter_cons_of_pos (by rw [bmIsFree_set_same tbl a true hwf hpg]),
          List.filter_cons_of_neg (by simp [hused]), List.length_cons, hrest]
    · have hm : n ∈ bs := by
        rcases List.mem_cons.mp hmem with h | h
        · exact absurd h.symm ha
        · exact h
      have := ih (fun b hb => h2 b (by simp [hb])) hnd'.2 hm
      have hsame : bmIsFree (bmSetWord tbl n true) a = bmIsFree tbl a :=
        bmIsFree_set_other tbl n a true hwf hn (h2 a (by simp)) (fun e => ha e.symm) hpg
      unfold countIn at this ⊢
      by_cases hfa : bmIsFree tbl a = true
      · rw [List.filter_cons_of_pos (by rw [hsame]; simpa using hfa), List.filter_cons_of_pos (by simpa using hfa)]
        simp only [List.length_cons]; omega
      · rw [List.filter_cons_of_neg (by rw [hsame]; simpa using hfa), List.filter_cons_of_neg (by simpa using hfa)]
        exact this

/-- releasing a block and the state "free" are idempotent: freeing twice counts once (no double credit) -/
theorem C05_free_idempotent (tbl : List Blk) (n : Nat) (hwf : TableWF tbl) (hn : 2 ≤ n)
    (hpg : (n - 2) / BM_PAGE_BLOCKS < tbl.length) (m : Nat) (hm : 2 ≤ m) :
    bmIsFree (bmSetWord (bmSetWord tbl n true) n true) m = bmIsFree (bmSetWord tbl n true) m := by
  have hwf' := bmSetWord_wf tbl n true hwf
  have hpg' : (n - 2) / BM_PAGE_BLOCKS < (bmSetWord tbl n true).length := by rw [bmSetWord_length]; exact hpg
  by_cases h : n = m
  · subst h
    rw [bmIsFree_set_same _ _ _ hwf' hpg', bmIsFree_set_same _ _ _ hwf hpg]
  · exact bmIsFree_set_other _ n m true hwf' hn hm h hpg'

/-- the free count is a count over distinct blocks of the volume -/
theorem C05_range_nodup (last : Nat) : (List.range' 2 (last + 1 - 2)).Nodup ∧ ∀ b ∈ List.range' 2 (last + 1 - 2), 2 ≤ b ∧ b ≤ last := by
  refine ⟨List.nodup_range' .., ?_⟩
  intro b hb
  simp only [List.mem_range'_1] at hb
  omega

/-- witness on the 40-block table of C04: 36 free blocks; after using 22 the count is 35, after freeing it again 36 -/
example : freeCount C04.smallTbl 39 = 36 ∧ freeCount (bmSetWord C04.smallTbl 22 false) 39 = 35 ∧
          freeCount (bmSetWord (bmSetWord C04.smallTbl 22 false) 22 true) 39 = 36 := by decide

/-- **`adfCreateEntry` leaks nothing**: with `none` the free map of the volume is unchanged, with `some b` exactly block `b`
    (free before) became used — for every directory block, name, disk content and fault schedule -/
theorem C05_create_entry_takes_one_or_none (c : Cfg) (v : Nat) (dir : Blk) (name : Bytes) (s : St)
    (hwf : TableWF (s.mem.vol v).bitmapTable) :
    Post AnyFault c (createEntry v dir name) s (fun r s' => FreeMapStep v s.mem s'.mem r.1) :=
  createEntry_free_map c v dir name s hwf

/-- the hypothesis holds for every table the library builds (pages decoded from sectors, then bits set / cleared) -/
example (bytes : Bytes) (n : Nat) (f : Bool) : TableWF (bmSetWord [blkOfBytes bytes] n f) :=
  bmSetWord_wf _ _ _ (by intro p hp; simp only [List.mem_singleton] at hp; subst hp; exact blkOfBytes_wf bytes)

/-- **a refused undelete gives every block back** (`adfUndelFile`, model `undelFileLink`; the defect repaired by the
    give-back exit cannot return without breaking this): for every disk content, block lists — also lists naming a block
    twice or naming the header block —, volume type, volume state and fault schedule, when the call ends without having
    linked the file (a block of it belongs to another file by now, the name exists again, the parent cannot be read, a
    write is refused), the free map is block for block what it was when the call began. -/
theorem C05_refused_undelete_restores_free_map (c : Cfg) (v pSect : Nat) (entry : Blk) (data exts : List Nat) (s : St)
    (hwf : TableWF (s.mem.vol v).bitmapTable) (hfree : bmIsFree (s.mem.vol v).bitmapTable (entry.w F_headerKey) = true) :
    Post AnyFault c (undelFileLink v pSect entry data exts) s (fun r s' => r.2 = none → FreeMapEq v s.mem s'.mem) :=
  undelFileLink_refused_restores c v pSect entry data exts s hwf hfree

/-- **`adfUndelFile`, the whole call: either the free map is what it was, or the file has been linked** — every volume type,
    disk content, entry block, volume state and fault schedule: every way the call can end without a successful link write
    in its log (wrong parent, header block in use, unreadable extension chain, a block of the file in use, the name exists
    again, a refused write) leaves the free map block for block as it was when the call began. -/
theorem C05_undelete_file_restores_or_links (c : Cfg) (v pSect : Nat) (entry : Blk) (s : St)
    (hwf : TableWF (s.mem.vol v).bitmapTable) :
    Post AnyFault c (undelFile v pSect entry) s (fun _ s' => FreeMapEq v s.mem s'.mem ∨
      ∃ W e, writesOf s'.trace = W ++ writesOf s.trace ∧ e ∈ W ∧ e.status = 0 ∧
        ∃ d1, IsCreateLinkWr c d1 v (blkOfBytes ((s.sector (vsect c v pSect)).take 512)) (entry.w F_headerKey) e) :=
  undelFile_restores_or_links c v pSect entry s hwf

/-- **`adfUndelDir` takes the directory's block exactly when it links the directory** (volumes without directory cache): after
    the call either the free map is block for block what it was (every refusal), or a successful link write for the
    directory's block is in the call's write log and exactly that block, free before, is used now. -/
theorem C05_undelete_dir_takes_one_or_none (c : Cfg) (v pSect : Nat) (entry : Blk) (s : St)
    (hwf : TableWF (s.mem.vol v).bitmapTable) (hnc : isDIRCACHE (c.vol v).dosType = false) :
    Post AnyFault c (undelDir v pSect entry) s (fun _ s' => FreeMapEq v s.mem s'.mem ∨
      (Linked c v (entry.w F_headerKey) s s' ∧ FreeMapStep v s.mem s'.mem (some (entry.w F_headerKey)))) :=
  undelDir_takes_one_or_none c v pSect entry s hwf hnc

/-- the two halves of the give-back bookkeeping: marking a free block and releasing it again restore the map pointwise,
    whatever else was marked in between (`Part` is the invariant: marked set `M`, released set `F`) -/
theorem C05_all_given_back_is_restored (v : Nat) (m0 m : Mem) (M F : List Nat)
    (h : Part v (m0.vol v).bitmapTable M F m) (hall : ∀ k ∈ M, k ∈ F) : FreeMapEq v m0 m :=
  h.done hall

/-- non-vacuity of the undelete theorems' hypotheses: the 40-block volume of C04 (`smallTbl`: blocks 2..39 free except 20
    and 21) as the library's memory state — the table is well-formed, block 22 (a deleted entry's header) is free, and the
    marking loop on the list [23, 20, 24] marks block 23 and stops at block 20, which is in use -/
def undelExState : St :=
  { mem := { vols := [{ hasBitmap := true, bitmapSize := 1, bitmapBlocks := [21], bitmapTable := C04.smallTbl, bitmapChg := [false] }] } }

example : TableWF (undelExState.mem.vol 0).bitmapTable ∧ bmIsFree (undelExState.mem.vol 0).bitmapTable 22 = true ∧
          bmIsFree (undelExState.mem.vol 0).bitmapTable 20 = false := by
  refine ⟨?_, by decide, by decide⟩
  intro p hp
  have : p = [0, 0xFFF3FFFF, 0x3F] ++ List.replicate 125 0 := by
    simpa [undelExState, Mem.vol, C04.smallTbl] using hp
  subst this
  refine ⟨by simp, ?_⟩
  intro w hw
  simp only [List.mem_append, List.mem_cons, List.mem_replicate, List.not_mem_nil, or_false] at hw
  omega

end Adf.C05
