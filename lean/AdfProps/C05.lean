import AdfModel.Api
namespace Adf.C05
theorem C05_placeholder : True := trivial
end Adf.C05
