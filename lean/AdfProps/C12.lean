/-
  C12 — Read-only means read-only: no write ever reaches the device.

  Model: every library function is a `Prog` (AdfModel/Prog.lean); the only primitives that can
  append a write event or change the disk are `volWrite` (adfWriteBlock: refuses when
  vol->readOnly) and `devWrite` (adfWrite{RDSK,PART,FSHD,LSEG}block: refuse when dev->readOnly).
  The theorems below are therefore about EVERY program — every API function of the model, in
  any order, with any arguments, on any disk content and under any fault schedule.

  What is modelled rather than proved: that the C functions perform device writes only through
  those two paths, and that vol->readOnly / dev->readOnly are assigned only by open / mount /
  create (checked by the correspondence runs on read-only configurations, tools/props/C12.py,
  which also cover the clause "every mutating call reports failure").
-/
import AdfProofs.ProgLemmas
import AdfModel.Vol
namespace Adf.C12
open Adf

/-- the write events a configuration permits: a volume-level write only on a writable volume,
    a raw device write only on a writable device -/
def EvAllowed (c : Cfg) : Ev → Prop
  | .wr (some v) _ _ _ _ => (c.vol v).readOnly = false ∧ (c.vol v).mounted = true
  | .wr none _ _ _ _ => c.devReadOnly = false
  | .rd _ _ _ _ => True

theorem prim_allowed (c : Cfg) {β : Type} (pr : Prim β) (s : St) :
    ∃ evs, (runPrim c pr s).2.trace = evs ++ s.trace ∧ ∀ e ∈ evs, EvAllowed c e := by
  cases pr with
  | volRead v n =>
    simp only [runPrim]
    split
    · exact ⟨[], by simp, by simp⟩
    · split
      · exact ⟨[], by simp, by simp⟩
      · obtain ⟨st, h, _⟩ := devReadRaw_trace c (some v) ((n + (c.vol v).firstBlock) % 4294967296) 512 s
        exact ⟨_, h, by simp [EvAllowed]⟩
  | volWrite v n b =>
    simp only [runPrim]
    split
    · exact ⟨[], by simp, by simp⟩
    · split
      · exact ⟨[], by simp, by simp⟩
      · split
        · exact ⟨[], by simp, by simp⟩
        · rename_i hm hro _
          obtain ⟨st, h, _⟩ := devWriteRaw_trace c (some v) ((n + (c.vol v).firstBlock) % 4294967296) 512 b s
          refine ⟨_, h, ?_⟩
          intro e he
          simp only [List.mem_singleton] at he
          subst he
          simp only [EvAllowed]
          constructor
          · simpa using hro
          · simpa using hm
  | devRead n size =>
    simp only [runPrim]
    obtain ⟨st, h, _⟩ := devReadRaw_trace c none n size s
    exact ⟨_, h, by simp [EvAllowed]⟩
  | devWrite n size b =>
    simp only [runPrim]
    split
    · exact ⟨[], by simp, by simp⟩
    · rename_i hro
      obtain ⟨st, h, _⟩ := devWriteRaw_trace c none n size b s
      refine ⟨_, h, ?_⟩
      intro e he
      simp only [List.mem_singleton] at he
      subst he
      simpa [EvAllowed] using hro
  | getCfg => exact ⟨[], by simp [runPrim], by simp⟩
  | getMem => exact ⟨[], by simp [runPrim], by simp⟩
  | setMem m => exact ⟨[], by simp [runPrim], by simp⟩
  | now => exact ⟨[], by simp [runPrim], by simp⟩

/-- every device access any program makes is one the configuration permits -/
theorem C12_events_allowed (c : Cfg) {α : Type} (p : Prog α) (s : St) :
    ∃ evs, (run c p s).2.trace = evs ++ s.trace ∧ ∀ e ∈ evs, EvAllowed c e :=
  run_trace_inv c (EvAllowed c) (fun pr s => prim_allowed c pr s) p s

def isWrite : Ev → Bool
  | .wr .. => true
  | _ => false

/-- a configuration in which nothing may be written: the device is read-only and so is every
    volume (adfMount forces vol->readOnly when dev->readOnly), or the device is writable but the
    volumes are mounted read-only and no raw header write is attempted -/
def AllReadOnly (c : Cfg) : Prop :=
  c.devReadOnly = true ∧ ∀ v, (c.vol v).mounted = true → (c.vol v).readOnly = true

/-- read-only device (all volumes read-only): NO write event, for every program -/
theorem C12_no_write (c : Cfg) (hro : AllReadOnly c) {α : Type} (p : Prog α) (s : St) :
    ∃ evs, (run c p s).2.trace = evs ++ s.trace ∧ ∀ e ∈ evs, isWrite e = false := by
  obtain ⟨evs, h, ha⟩ := C12_events_allowed c p s
  refine ⟨evs, h, ?_⟩
  intro e he
  have := ha e he
  cases e with
  | rd _ _ _ _ => rfl
  | wr vol n size d st =>
    cases vol with
    | some v => simp only [EvAllowed] at this; rw [hro.2 v this.2] at this; exact absurd this.1 (by decide)
    | none => simp only [EvAllowed] at this; rw [hro.1] at this; exact absurd this (by decide)

/-- a volume mounted read-only receives no write, whatever the program, even on a writable device -/
theorem C12_no_write_volume (c : Cfg) (v : Nat) (hro : (c.vol v).readOnly = true) {α : Type} (p : Prog α) (s : St) :
    ∃ evs, (run c p s).2.trace = evs ++ s.trace ∧
      ∀ e ∈ evs, ∀ n size d st, e ≠ Ev.wr (some v) n size d st := by
  obtain ⟨evs, h, ha⟩ := C12_events_allowed c p s
  refine ⟨evs, h, ?_⟩
  intro e he n size d st heq
  have := ha e he
  rw [heq] at this
  simp only [EvAllowed] at this
  rw [hro] at this
  exact absurd this.1 (by decide)

/-- and the image bytes are identical afterwards: the disk of the final state is the disk of the
    initial state, for every program -/
theorem C12_disk_unchanged (c : Cfg) (hro : AllReadOnly c) {α : Type} (p : Prog α) (s : St) :
    (run c p s).2.disk = s.disk := by
  have := run_state_inv c (fun st => st.disk = s.disk) (fun {β} pr st hq => by
    cases pr with
    | volRead v n =>
      simp only [runPrim]
      split
      · exact hq
      · split
        · exact hq
        · obtain ⟨_, _, hd⟩ := devReadRaw_trace c (some v) ((n + (c.vol v).firstBlock) % 4294967296) 512 st
          simpa [hd] using hq
    | volWrite v n b =>
      simp only [runPrim]
      split
      · exact hq
      · split
        · exact hq
        · rename_i hm hr
          have hm' : (c.vol v).mounted = true := by simpa using hm
          exact absurd (hro.2 v hm') (by simpa using hr)
    | devRead n size =>
      simp only [runPrim]
      obtain ⟨_, _, hd⟩ := devReadRaw_trace c none n size st
      simpa [hd] using hq
    | devWrite n size b =>
      simp only [runPrim]
      split
      · exact hq
      · rename_i hr; exact absurd hro.1 (by simpa using hr)
    | getCfg => exact hq
    | getMem => exact hq
    | setMem m => exact hq
    | now => exact hq) p s rfl
  exact this

/-- the primitive that models adfWriteBlock reports failure on a read-only volume -/
theorem C12_volWrite_reports (c : Cfg) (v n : Nat) (b : Bytes) (s : St) (hro : (c.vol v).readOnly = true) :
    (run c (volWrite v n b) s).1 = Res.ok rcError := by
  simp only [volWrite, run, runPrim]
  by_cases hm : (c.vol v).mounted = true
  · simp [hm, hro]
  · simp [hm]

/-- non-vacuity: a read-only device with one mounted (hence read-only) DD-floppy volume -/
def exVol : VolCfg := { firstBlock := 0, lastBlock := 1759, rootBlock := 880, readOnly := true, mounted := true }
def exCfg : Cfg := { devReadOnly := true, vols := [exVol] }

example : AllReadOnly exCfg := by
  refine ⟨rfl, ?_⟩
  intro v
  cases v with
  | zero => intro _; rfl
  | succ k => intro h; simp [Cfg.vol, exCfg] at h; exact absurd h (by decide)

end Adf.C12
