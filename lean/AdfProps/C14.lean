/-
  C14 — Format/mount round trip: the geometry arithmetic, for every volume size.
  Model: AdfModel/Bitmap.lean (nBlock2bitmapSize, index arithmetic), AdfModel/Vol.lean (createVol:
  root = n/2; pages; extension blocks).
  A volume of n blocks maps blocks 2..n-1 (n-2 of them) in pages of 4064 bits; the root block lists
  25 pages, each bitmap-extension block 127 more.  The theorems hold for all n (no sampled sizes).
  NOT proved (see MANIFEST): that the model's format function, run on every geometry, yields a well-formed
  volume — that is checked per geometry by tools/props/C14.py (decoder + closed form) on code and model.
-/
import AdfModel.Vol
namespace Adf.C14
open Adf

/-- `nBlock2bitmapSize` is the ceiling of n / 4064 -/
theorem C14_pages_ceil (n : Nat) : nBlock2bitmapSize n = (n + 4063) / 4064 := by
  unfold nBlock2bitmapSize BM_PAGE_BLOCKS
  by_cases h : n % 4064 ≠ 0
  · rw [if_pos h]; omega
  · rw [if_neg h]; omega

/-- the pages cover exactly the mapped blocks: enough bits, and no page is superfluous -/
theorem C14_pages_cover (n : Nat) (hn : 0 < n) :
    n ≤ nBlock2bitmapSize n * 4064 ∧ (nBlock2bitmapSize n - 1) * 4064 < n := by
  rw [C14_pages_ceil]; omega

/-- every block of the volume (2 ≤ b < nblocks) indexes a page that exists, a word 1..127 of it and a bit 0..31:
    the unchecked table accesses of adfIsBlockFree / adfSetBlockUsed / adfSetBlockFree are in bounds for
    every block number inside the volume -/
theorem C14_block_index_in_table (nblocks b : Nat) (hb : 2 ≤ b) (hlt : b < nblocks) :
    (b - 2) / BM_PAGE_BLOCKS < nBlock2bitmapSize (nblocks - 2) ∧
    1 ≤ 1 + ((b - 2) / 32) % 127 ∧ 1 + ((b - 2) / 32) % 127 ≤ 127 ∧ (b - 2) % 32 < 32 := by
  rw [C14_pages_ceil]; unfold BM_PAGE_BLOCKS; omega

/-- distinct blocks have distinct (page, word, bit) coordinates: no two blocks share a bit -/
theorem C14_bit_coordinates_injective (a b : Nat) (ha : 2 ≤ a) (hb : 2 ≤ b)
    (h1 : (a - 2) / 4064 = (b - 2) / 4064) (h2 : ((a - 2) / 32) % 127 = ((b - 2) / 32) % 127)
    (h3 : (a - 2) % 32 = (b - 2) % 32) : a = b := by
  omega

/-- number of bitmap-extension blocks `adfWriteNewBitmap` allocates for `size` pages -/
def nExtBlocks (size : Nat) : Nat :=
  if size > BM_SIZE then (size - BM_SIZE) / 127 + (if (size - BM_SIZE) % 127 ≠ 0 then 1 else 0) else 0

/-- root slots + extension blocks hold exactly the pages: enough room, and no extension block is superfluous -/
theorem C14_ext_blocks_cover (size : Nat) :
    size ≤ 25 + 127 * nExtBlocks size ∧ (25 < size → 25 + 127 * (nExtBlocks size - 1) < size) ∧
    (size ≤ 25 → nExtBlocks size = 0) := by
  unfold nExtBlocks BM_SIZE
  by_cases h : size > 25
  · rw [if_pos h]
    by_cases h2 : (size - 25) % 127 ≠ 0
    · rw [if_pos h2]; omega
    · rw [if_neg h2]; omega
  · rw [if_neg h]; omega

/-- the closed form the checks compare the library's count against: on a fresh volume of n blocks the blocks in use
    are the root block, the pages, the extension blocks and (DIRCACHE) one cache block -/
def freshFree (n : Nat) (dirc : Bool) : Nat :=
  let pages := nBlock2bitmapSize (n - 2)
  n - 2 - 1 - pages - nExtBlocks pages - (if dirc then 1 else 0)

/-- for every volume of at least 16 blocks the formula is a true difference (nothing is clipped at 0)
    and the volume has room for its own metadata -/
theorem C14_fresh_free_exact (n : Nat) (dirc : Bool) (hn : 16 ≤ n) :
    freshFree n dirc + 1 + nBlock2bitmapSize (n - 2) + nExtBlocks (nBlock2bitmapSize (n - 2)) + (if dirc then 1 else 0) = n - 2 := by
  unfold freshFree
  have hp := C14_pages_ceil (n - 2)
  have he := C14_ext_blocks_cover (nBlock2bitmapSize (n - 2))
  simp only []
  have hpages : nBlock2bitmapSize (n - 2) ≤ (n - 2 + 4063) / 4064 := by rw [hp]; exact Nat.le_refl _
  have hext : nExtBlocks (nBlock2bitmapSize (n - 2)) ≤ nBlock2bitmapSize (n - 2) := by
    unfold nExtBlocks BM_SIZE
    split
    · split <;> omega
    · omega
  cases dirc <;> simp <;> omega

/-- root block position of `adfCreateVol` / `adfMountFlop`: inside the volume, behind the boot blocks -/
theorem C14_root_position (n : Nat) (hn : 4 ≤ n) : 2 ≤ n / 2 ∧ n / 2 < n := by omega

/-- the volume range from a cylinder range: `len` cylinders of `heads*secs` blocks -/
theorem C14_range_size (heads secs start len : Nat) (h : 0 < heads * secs * len) :
    (heads * secs * start + heads * secs * len - 1) - heads * secs * start + 1 = heads * secs * len := by
  omega

/-- witnesses: DD floppy, HD floppy, the sizes that used to mis-mount, and a volume that needs an extension block -/
example : nBlock2bitmapSize (1760 - 2) = 1 ∧ freshFree 1760 false = 1756 ∧ freshFree 1760 true = 1755 ∧
          freshFree 3520 false = 3516 ∧ nBlock2bitmapSize (4067 - 2) = 2 ∧ freshFree 4067 false = 4062 ∧
          nBlock2bitmapSize (110000 - 2) = 28 ∧ nExtBlocks 28 = 1 ∧ freshFree 110000 false = 109968 := by decide

end Adf.C14
