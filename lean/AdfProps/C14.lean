import AdfModel.Api
namespace Adf.C14
theorem C14_placeholder : True := trivial
end Adf.C14
