/-
  AdfSpec.Calendar — the proleptic Gregorian calendar, written without reference to ADFlib.
  `civil y m d` = number of days from 0001-01-01 to y-m-d (day 0 = 0001-01-01).
-/
namespace Spec

def leap (y : Nat) : Bool := (y % 4 = 0 && y % 100 ≠ 0) || y % 400 = 0

/-- days in the years 1 … y-1 -/
def daysBeforeYear (y : Nat) : Nat := 365 * (y - 1) + (y - 1) / 4 - (y - 1) / 100 + (y - 1) / 400

/-- days of a common year before month m (1..12) -/
def monthStart : Nat → Nat
  | 1 => 0 | 2 => 31 | 3 => 59 | 4 => 90 | 5 => 120 | 6 => 151 | 7 => 181 | 8 => 212
  | 9 => 243 | 10 => 273 | 11 => 304 | 12 => 334 | _ => 0

def monthLen (y m : Nat) : Nat :=
  match m with
  | 1 => 31 | 2 => if leap y then 29 else 28 | 3 => 31 | 4 => 30 | 5 => 31 | 6 => 30
  | 7 => 31 | 8 => 31 | 9 => 30 | 10 => 31 | 11 => 30 | 12 => 31 | _ => 0

def validDate (y m d : Nat) : Prop := 1 ≤ m ∧ m ≤ 12 ∧ 1 ≤ d ∧ d ≤ monthLen y m

instance (y m d : Nat) : Decidable (validDate y m d) := by unfold validDate; infer_instance

def civil (y m d : Nat) : Nat :=
  daysBeforeYear y + monthStart m + (if leap y && decide (m > 2) then 1 else 0) + (d - 1)

/-- the Amiga epoch -/
def epoch : Nat := civil 1978 1 1

end Spec
