/-
  AdfSpec.PathSpec — lexical resolution of a POSIX relative path, independent of the code.
  A path stays inside its start directory iff it is relative and resolving its components
  ("" and "." skipped, ".." pops, anything else pushes) never pops an empty stack.
-/
namespace Spec

abbrev Path := List UInt8

/-- split at '/' (47) -/
def splitSlash : Path → List Path
  | [] => [[]]
  | c :: rest =>
    if c = 47 then [] :: splitSlash rest
    else match splitSlash rest with
      | [] => [[c]]
      | h :: t => (c :: h) :: t

/-- resolve components against a stack of directory names below the start directory;
    `none` = the path left the start directory -/
def resolve : List Path → List Path → Option (List Path)
  | st, [] => some st
  | st, c :: cs =>
    if c = [] ∨ c = [46] then resolve st cs
    else if c = [46, 46] then
      match st.reverse with
      | [] => none
      | _ :: r => resolve r.reverse cs
    else resolve (st ++ [c]) cs

/-- a path handed to the OS is *inside* the directory it is interpreted in -/
def inside (p : Path) : Prop := p.head? ≠ some 47 ∧ (resolve [] (splitSlash p)).isSome

theorem resolve_no_dotdot (st : List Path) (cs : List Path) (h : [46, 46] ∉ cs) :
    (resolve st cs).isSome := by
  induction cs generalizing st with
  | nil => simp [resolve]
  | cons c cs ih =>
    have hc : c ≠ [46, 46] := fun e => h (by simp [e])
    have hcs : [46, 46] ∉ cs := fun e => h (by simp [e])
    rw [resolve]
    by_cases h1 : c = [] ∨ c = [46]
    · rw [if_pos h1]; exact ih _ hcs
    · rw [if_neg h1, if_neg hc]; exact ih _ hcs

end Spec
